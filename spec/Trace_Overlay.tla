--------------------------- MODULE Trace_Overlay ---------------------------
(* Trace specification for C10/C11: judges the NDJSON logs of harness/src/bin/ovl.rs against the
   A-level specification Overlay.tla. Deterministic, monitor mode: a failed property conjunct prints
   <<"VIOL", signature, l, detail>> and validation continues (the A state is re-synchronised with
   the logged view so that one defect is reported once).

   Per segment: Reset, Layers, View, Restarted, Lower*, UpperRaw, (Op, View, Restarted, Lower*, UpperRaw)*.
     initial View  = ViewOf(layers) by the union rules                                  (C10)
     View after Op = the view AOp allows from the previous view (status, effect, errno)  (C10)
     Restarted     = View (a fresh instance over the same directories)                   (C11)
     Lower digests constant                                                              (C10)
   Signatures: "<prop>|<op>|<what>|<pre-state class>", the class being the type of the upper
   layer's entry and of the topmost lower entry at the operation's path before the operation. *)
EXTENDS Overlay, Json, IOUtils
Rec == ndJsonDeserialize(IOEnv.TRACE)

VARIABLES l, hasUpper, B, fresh, view, lowers, upraw, preup, digests, exp, lastop, div, nfail, overwh, pview, slots, cfgtag
vars == <<l, hasUpper, B, fresh, view, lowers, upraw, preup, digests, exp, lastop, div, nfail, overwh, pview, slots, cfgtag>>

Viol(sig, detail) == PrintT(<<"VIOL", sig, l, detail>>)
Markers == {"trusted.overlay.opaque", "user.overlay.opaque", "user.fuseoverlayfs.opaque"}

Tok(s, i) == IF s = "Z" THEN "Z" ELSE s \o "." \o ToString(i)
RECURSIVE Expand(_)
Expand(runs) == IF runs = <<>> THEN <<>>
                ELSE LET r == Head(runs) IN [k \in 1..r[3] |-> Tok(r[1], r[2] + k - 1)] \o Expand(Tail(runs))
XSet(r) == IF Has(r, "x") THEN {r.x[i] : i \in DOMAIN r.x} \ {e \in {r.x[i] : i \in DOMAIN r.x} : e[1] \in Markers} ELSE {}

\* a logged row as a node; inLayer: raw host rows (whiteouts and opaque marks are meaningful)
NodeOfRow(r, inLayer) ==
  LET c == IF Has(r, "c") THEN Expand(r.c) ELSE <<>>
      bad == IF inLayer THEN FALSE
             ELSE \/ Has(r, "ghost") \/ Has(r, "lm") \/ Has(r, "rerr") \/ Has(r, "rsz")
                  \/ r.t \notin {"dir", "file", "sym", "fifo"}
                  \/ (r.t = "file" /\ r.sz # B * Len(c))
  IN IF bad THEN [NoneN EXCEPT !.t = "bad", !.tg = ToString(r)]
     ELSE [t |-> r.t, m |-> IF Has(r, "m") THEN r.m ELSE 0, c |-> c,
           tg |-> IF Has(r, "tg") THEN r.tg ELSE "",
           \* a symbolic link whose target is not valid UTF-8 (logged "x:<hex>", flag tgx) carries a mark in x, a field
           \* that is otherwise unused (and never compared) for symbolic links
           x |-> IF r.t = "sym" THEN (IF Has(r, "tgx") THEN {<<"non-utf8-target", "">>} ELSE {}) ELSE XSet(r),
           o |-> (inLayer /\ Has(r, "opq") /\ r.opq # ""), id |-> r.p]
RowsOK(rows) == /\ \A i \in DOMAIN rows : rows[i].p \in Paths
                /\ Cardinality({rows[i].p : i \in DOMAIN rows}) = Len(rows)
TreeOf(rows, inLayer) ==
  [p \in Paths |-> LET S == {i \in DOMAIN rows : rows[i].p = p}
                   IN IF S = {} THEN NoneN ELSE NodeOfRow(rows[CHOOSE i \in S : TRUE], inLayer)]

DiffPaths(a, b) == {p \in Paths : a[p] # b[p]}
DiffDetail(a, b) == LET D == DiffPaths(a, b) IN [p \in D |-> <<a[p], b[p]>>]
Covered(D) == {p \in Paths : p \in D \/ \E a \in D : IsAncestor(a, p)}
Related(p, D) == \E q \in D : q = p \/ IsAncestor(q, p) \/ IsAncestor(p, q)
\* which compared fields differ somewhere ("t" alone when an entry is missing/extra or of another type)
DiffKind(a, b) ==
  LET D == DiffPaths(a, b)
      F(f) == \E p \in D : a[p][f] # b[p][f]
  IN IF F("t") THEN "t"
     ELSE (IF F("m") THEN "m" ELSE "") \o (IF F("c") THEN "c" ELSE "") \o (IF F("tg") THEN "g" ELSE "") \o (IF F("x") THEN "x" ELSE "")

OpName == lastop.op
\* "dirw": a non-opaque upper directory that an earlier mkdir of this run made over hidden lower entries
UpClass == LET c == EntryClass(preup, lastop.p) IN IF c = "dir" /\ lastop.ow THEN "dirw" ELSE c
\* "+noopen": the instance (overlay and layers) runs with ZERO_MESSAGE_OPEN negotiated
OpClass == IF lastop.op = "init" THEN "initial" \o cfgtag ELSE "upper-" \o UpClass \o "-lower-" \o TopLower(lowers, lastop.p) \o cfgtag
Sig(prop, what) == prop \o "|" \o OpName \o "|" \o what \o "|" \o OpClass

\* ids of the re-synchronised view: keep the identity the A view has for the same kind of node
Resync(logged, base) ==
  [p \in Paths |-> IF logged[p].t # "none" /\ base[p].t = logged[p].t THEN [logged[p] EXCEPT !.id = base[p].id]
                   ELSE IF logged[p].t # "none" THEN [logged[p] EXCEPT !.id = <<"r", ToString(l)>> \o p]
                   ELSE NoneN]

Init == /\ l = 1 /\ hasUpper = TRUE /\ B = 1 /\ fresh = TRUE /\ view = EmptyTree /\ lowers = <<>>
        /\ upraw = EmptyTree /\ preup = EmptyTree /\ digests = [k \in 1..4 |-> ""]
        /\ exp = Free(EmptyTree) /\ lastop = [op |-> "init", p |-> <<>>, st |-> 0, src |-> <<>>, ow |-> FALSE] /\ div = {} /\ nfail = 0 /\ overwh = {} /\ pview = EmptyTree /\ slots = [k \in 0..2 |-> NoSlot] /\ cfgtag = ""

Layers == IF hasUpper THEN <<upraw>> \o lowers ELSE lowers

CheckInitialView(rows) ==
  LET logged == ProjView(TreeOf(rows, FALSE))
      want == ProjView(ViewOf(Layers))
  IN IF ~RowsOK(rows) THEN Viol("C10|init|rows-malformed|initial", rows)
     ELSE IF logged = want THEN TRUE
     ELSE Viol("C10|init|union-rules|initial", DiffDetail(logged, want))

CheckView(rows, st) ==
  LET logged == ProjView(TreeOf(rows, FALSE))
      before == ProjView(view)
      after == ProjView(exp.v)
      ok == st = 0
  IN IF ~RowsOK(rows) THEN Viol(Sig("C10", "rows-malformed"), rows)
     ELSE IF lastop.op = "rename" THEN TRUE
     \* the live instance already disagrees with its own disk state around this path (reported
     \* when it arose): what an operation does there is not attributed to the operation
     ELSE IF Related(lastop.p, div) \/ (lastop.src # <<>> /\ Related(lastop.src, div)) THEN TRUE
     ELSE IF ~exp.free /\ ok /\ ~exp.ok THEN Viol(Sig("C10", "unexpected-success"), <<lastop, st>>)
     ELSE IF ~exp.free /\ ~ok /\ exp.ok THEN
            (IF logged = before THEN Viol(Sig("C10", "unexpected-failure"), <<lastop, st>>)
             ELSE Viol(Sig("C10", "unexpected-failure-and-changed-" \o DiffKind(logged, before)), <<lastop, st, DiffDetail(logged, before)>>))
     ELSE IF ok THEN (IF logged = after \/ logged = ProjView(exp.alt) THEN TRUE ELSE Viol(Sig("C10", "view-differs-" \o DiffKind(logged, after)), <<lastop, DiffDetail(logged, after)>>))
     ELSE IF logged # before THEN Viol(Sig("C10", "failed-but-changed-" \o DiffKind(logged, before)), <<lastop, st, DiffDetail(logged, before)>>)
     ELSE IF ~exp.free /\ exp.errs # {} /\ st \notin exp.errs THEN Viol(Sig("C10", "errno"), <<lastop, st, exp.errs>>)
     ELSE TRUE

CheckRestarted(rows) ==
  LET R == ProjView(TreeOf(rows, FALSE))
      V == ProjView(view)
      new == DiffPaths(R, V) \ Covered(div)
  IN IF ~RowsOK(rows) THEN Viol(Sig("C11", "rows-malformed"), rows)
     ELSE IF new = {} THEN TRUE
     \* an operation on a path around which the instance already diverged from its disk state (reported then)
     ELSE IF lastop.op # "init" /\ (Related(lastop.p, div) \/ (lastop.src # <<>> /\ Related(lastop.src, div))) THEN TRUE
     ELSE Viol(Sig("C11", "restart-differs-" \o DiffKind(R, V)), <<lastop, [p \in new |-> [restarted |-> R[p], live |-> V[p]]]>>)

\* C11, copy-up clause: an entry that was visible before the operation, had no entry in the upper layer
\* and has one afterwards was copied up; it must show the type, permission bits, content and link target
\* the A view gives it (its prior state plus the operation's own modification) - xattrs are not part of the clause
CuProj(n) == [t |-> n.t, m |-> IF n.t = "sym" THEN 0 ELSE n.m, c |-> n.c, tg |-> n.tg]
CheckCopyUp(newup) ==
  LET want == IF lastop.st = 0 THEN exp.v ELSE pview
      copied == {q \in Paths : preup[q].t = "none" /\ newup[q].t \notin {"none", "wh"} /\ pview[q].t # "none"}
      bad == {q \in copied : CuProj(view[q]) # CuProj(want[q])}
      F(f) == \E q \in bad : CuProj(view[q])[f] # CuProj(want[q])[f]
      kind == (IF F("t") THEN "t" ELSE "") \o (IF F("m") THEN "m" ELSE "") \o (IF F("c") THEN "c" ELSE "") \o (IF F("tg") THEN "g" ELSE "")
  IN IF bad = {} THEN TRUE
     ELSE IF Related(lastop.p, div) \/ (lastop.src # <<>> /\ Related(lastop.src, div)) THEN TRUE
     ELSE Viol(Sig("C11", "copy-up-" \o kind), <<lastop, [q \in bad |-> [shown |-> CuProj(view[q]), expected |-> CuProj(want[q])]]>>)

CheckLower(r) ==
  IF digests[r.k] = "" \/ digests[r.k] = r.digest THEN TRUE
  ELSE Viol(Sig("C10", "lower-changed"), <<lastop, r.k>>)

OpOf(r) == IF Has(r, "c") THEN [r EXCEPT !.c = Expand(r.c)] ELSE r

Step ==
  /\ l <= Len(Rec)
  /\ LET r == Rec[l] IN
     CASE r.e = "Reset" ->
            /\ hasUpper' = r.upper /\ B' = r.B /\ fresh' = TRUE /\ view' = EmptyTree /\ lowers' = <<>>
            /\ upraw' = EmptyTree /\ preup' = EmptyTree /\ digests' = [k \in 1..4 |-> ""]
            /\ exp' = Free(EmptyTree) /\ lastop' = [op |-> "init", p |-> <<>>, st |-> 0, src |-> <<>>, ow |-> FALSE] /\ div' = {} /\ nfail' = 0 /\ overwh' = {} /\ pview' = EmptyTree /\ slots' = [k \in 0..2 |-> NoSlot] /\ cfgtag' = IF Has(r, "no_open") /\ r.no_open THEN "+noopen" ELSE ""
       [] r.e = "Layers" ->
            \* an opaque ROOT cuts off the layers below it like any opaque directory: r.ro lists the marker of each
            \* layer's root (upper first when there is one); the lower layers that still contribute are kept
            /\ lowers' = LET all == [k \in DOMAIN r.lowers |-> TreeOf(r.lowers[k], TRUE)]
                              ro == IF Has(r, "ro") THEN r.ro ELSE <<>>
                              off == IF hasUpper THEN 1 ELSE 0
                              keep == {k \in DOMAIN all : \A j \in 1..(k + off - 1) : j \notin DOMAIN ro \/ ro[j] = ""}
                          IN SubSeq(all, 1, Cardinality(keep))
            /\ upraw' = TreeOf(r.upper, TRUE)
            /\ UNCHANGED <<hasUpper, B, fresh, view, preup, digests, exp, lastop, div, nfail, overwh, pview, slots, cfgtag>>
       [] r.e = "BuildError" ->
            /\ TRUE = Viol("C10|init|build-error|initial", r)
            /\ UNCHANGED <<hasUpper, B, fresh, view, lowers, upraw, preup, digests, exp, lastop, div, nfail, overwh, pview, slots, cfgtag>>
       [] r.e = "View" ->
            /\ TRUE = (IF fresh THEN CheckInitialView(r.rows) ELSE CheckView(r.rows, lastop.st))
            /\ view' = IF ~RowsOK(r.rows) THEN view
                       ELSE IF fresh THEN TreeOf(r.rows, FALSE)
                       ELSE Resync(TreeOf(r.rows, FALSE), IF lastop.st = 0 /\ lastop.op # "rename" THEN exp.v ELSE view)
            /\ UNCHANGED <<hasUpper, B, fresh, lowers, upraw, preup, digests, exp, lastop, div, nfail, overwh, pview, slots, cfgtag>>
       [] r.e = "Restarted" ->
            /\ TRUE = CheckRestarted(r.rows)
            /\ div' = IF RowsOK(r.rows) THEN DiffPaths(ProjView(TreeOf(r.rows, FALSE)), ProjView(view)) ELSE div
            /\ UNCHANGED <<hasUpper, B, fresh, view, lowers, upraw, preup, digests, exp, lastop, nfail, overwh, pview, slots, cfgtag>>
       [] r.e = "Lower" ->
            /\ TRUE = CheckLower(r)
            /\ digests' = IF digests[r.k] = "" THEN [digests EXCEPT ![r.k] = r.digest] ELSE digests
            /\ UNCHANGED <<hasUpper, B, fresh, view, lowers, upraw, preup, exp, lastop, div, nfail, overwh, pview, slots, cfgtag>>
       [] r.e = "UpperRaw" ->
            /\ TRUE = (IF fresh \/ lastop.op \in {"init", "rename"} THEN TRUE ELSE CheckCopyUp(TreeOf(r.rows, TRUE)))
            /\ upraw' = TreeOf(r.rows, TRUE) /\ fresh' = FALSE
            /\ UNCHANGED <<hasUpper, B, view, lowers, preup, digests, exp, lastop, div, nfail, overwh, pview, slots, cfgtag>>
       [] r.e = "Op" ->
            /\ preup' = upraw
            /\ exp' = IF r.op \in HandleOps THEN AHandleOp(view, slots, OpOf(r), hasUpper)
                       ELSE AOp(view, OpOf(r), hasUpper, <<"n", ToString(l)>>)
            \* a kept handle remembers the identity of the file it was opened on
            /\ slots' = IF r.op = "open" /\ Has(r, "keep") /\ r.st = 0
                         THEN [slots EXCEPT ![r.keep] = [id |-> IF r.p \in Paths THEN view[r.p].id ELSE <<>>, acc |-> r.acc]]
                         ELSE IF r.op = "close" /\ r.st = 0 THEN [slots EXCEPT ![r.slot] = NoSlot]
                         ELSE slots
            /\ lastop' = [op |-> r.op, p |-> IF Has(r, "p") THEN r.p ELSE <<>>, st |-> r.st, src |-> IF Has(r, "src") THEN r.src ELSE <<>>, ow |-> Has(r, "p") /\ r.p \in overwh]
            /\ nfail' = IF r.st # 0 THEN nfail + 1 ELSE nfail
            \* history: directories made (successfully) by mkdir where the lower layers have an entry (which was hidden,
            \* normally by an upper whiteout), until they are removed
            /\ overwh' = IF r.st # 0 \/ ~Has(r, "p") \/ r.p \notin Paths THEN overwh
                          ELSE IF r.op = "mkdir" /\ TopLower(lowers, r.p) \in {"file", "dir", "odir", "sym", "fifo"} THEN overwh \cup {r.p}
                          ELSE IF r.op \in {"rmdir", "unlink", "mkdir"} THEN {q \in overwh : q # r.p /\ ~IsAncestor(r.p, q)}
                          ELSE overwh
            /\ pview' = view
            /\ UNCHANGED <<hasUpper, B, fresh, view, lowers, upraw, digests, div, cfgtag>>
       [] OTHER -> /\ TRUE = Viol("C10|event|unknown|-", r) /\ UNCHANGED <<hasUpper, B, fresh, view, lowers, upraw, preup, digests, exp, lastop, div, nfail, overwh, pview, slots, cfgtag>>
  /\ l' = l + 1
Done == l = Len(Rec) + 1 /\ PrintT(<<"ACCEPTED", Len(Rec)>>) /\ l' = l + 1
        /\ UNCHANGED <<hasUpper, B, fresh, view, lowers, upraw, preup, digests, exp, lastop, div, nfail, overwh, pview, slots, cfgtag>>
Next == Step \/ Done
Spec == Init /\ [][Next]_vars
=============================================================================
