------------------------------ MODULE Trace_Async ------------------------------
(* Trace specification for C20: each `Pair` event records one request (bytes, reply capacity,
   segmentation) run through Server::handle_message and through Server::async_handle_message.
   A-level: same filesystem operation with the same arguments, same reply bytes or same absence of a
   reply, same Ok/Err. Monitor mode; the signature names the situation (cond) so that a known
   difference can be listed narrowly. *)
EXTENDS Naturals, Sequences, TLC, Json, IOUtils
Rec == ndJsonDeserialize(IOEnv.TRACE)
VARIABLE l
Viol(sig, d) == PrintT(<<"VIOL", sig, l, d>>)
Chk(ok, sig, d) == IF ok THEN TRUE ELSE Viol(sig, d)
Cond(p) == IF p.write_size_gt_max THEN "write-size-gt-max"
           ELSE IF p.len_huge THEN "oversize-length-field"
           ELSE IF p.cap < 16 THEN "reply-buffer-lt-16"
           ELSE "plain"
Check(p) ==
  LET s == p.sync  a == p["async"]  sfx == "|" \o Cond(p) \o "|" \o p.tr IN
  /\ Chk(s.ret # "panic" /\ a.ret # "panic" /\ a.ret # "pending", "C20|" \o p.op \o "|crash-or-pending" \o sfx, <<s.ret, a.ret>>)
  /\ Chk(s.calls = a.calls, "C20|" \o p.op \o "|filesystem-calls-differ" \o sfx,
         <<[i \in 1..Len(s.calls) |-> s.calls[i].m], [i \in 1..Len(a.calls) |-> a.calls[i].m]>>)
  /\ Chk(s.present = a.present, "C20|" \o p.op \o "|reply-presence-differs" \o sfx, <<s.present, s.ret, a.present, a.ret>>)
  /\ ~(s.present /\ a.present) \/ Chk(s.len = a.len /\ s.sum = a.sum, "C20|" \o p.op \o "|reply-bytes-differ" \o sfx, <<s.len, s.sum, a.len, a.sum>>)
  /\ Chk(s.retc = a.retc, "C20|" \o p.op \o "|result-differs" \o sfx, <<s.ret, a.ret>>)
  /\ Chk(s.canary_ok = a.canary_ok, "C20|" \o p.op \o "|memory-outside-reply" \o sfx, <<s.canary_ok, a.canary_ok>>)
Init == l = 1
Step == /\ l <= Len(Rec)
        /\ TRUE = (IF Rec[l].e = "Pair" THEN Check(Rec[l]) ELSE TRUE)
        /\ l' = l + 1
Done == l = Len(Rec) + 1 /\ PrintT(<<"ACCEPTED", Len(Rec)>>) /\ l' = l + 1
Next == Step \/ Done
Spec == Init /\ [][Next]_l
=============================================================================
