SPECIFICATION Spec
CONSTANT Mode = "nostall"
CHECK_DEADLOCK FALSE
POSTCONDITION Post
