------------------------------ MODULE Trace_PtMounted ------------------------------
(* Judge of the logs of harness/src/bin/ptmounted (X05), monitor mode.
     CAL|...            the two host shadows disagree with each other, or the initial trees differ: the comparison itself
                        is not well defined here (exit 2)
     X05|<op>|result|<mount status>/<host status>      Result
     X05|<op>|tree                                      Tree (export against the shadow)
     X05|view|<what>                                    View (mountpoint against the shadow)
     X05|times|<op>                                     explicitly set times
     X05|proto|<obligation>                             Refs / Handles
     X05|<op>|crash / hang                              the server died or stopped answering *)
EXTENDS PtMounted, Json, IOUtils
ASSUME TLCSet(7, ndJsonDeserialize(IOEnv.TRACE))
Rec == TLCGet(7)

VARIABLES l, X, A, sync, esync
vars == <<l, X, A, sync, esync>>
Chk(ok, sig, detail) == IF ok THEN TRUE ELSE PrintT(<<"VIOL", sig, l, detail>>)
Cal(ok, sig, detail) == IF ok THEN TRUE ELSE PrintT(<<"VIOL", "CAL|" \o sig, l, detail>>)
Has(r, k) == k \in DOMAIN r
Brief(r) == [k \in DOMAIN r \ {"data", "names"} |-> r[k]]
DiffCores(x, y) == <<Cores(x) \ Cores(y), Cores(y) \ Cores(x)>>
TimesSet(q, t) == t.atime = ToString(q.atime) /\ t.atime_ns = q.atime_ns /\ t.mtime = ToString(q.mtime) /\ t.mtime_ns = q.mtime_ns
\* obligations newly broken by the requests of this event
Proto(A0, A1) == \A b \in A1.bad \ A0.bad : Chk(FALSE, "X05|proto|" \o b, b)

Init == l = 1 /\ X = [none |-> TRUE] /\ A = Acct0 /\ sync = TRUE /\ esync = TRUE
Step ==
  /\ l <= Len(Rec)
  /\ LET r == Rec[l] IN
     CASE r.e = "Reset" ->
            LET A1 == AcctFold(Acct0, r.reqs, 1) IN
            /\ TRUE = (/\ Cal(SameTree(r.shadow, r.shadow2), "reset|shadows-differ", r.seg)
                       /\ Cal(SameTree(r.export, r.shadow), "reset|export-differs", r.seg)
                       /\ Chk(SameTree(r.view, r.shadow), "X05|view|initial", DiffCores(r.view, r.shadow))
                       /\ Proto(Acct0, A1))
            /\ X' = r.cfg /\ A' = A1 /\ sync' = TRUE /\ esync' = TRUE
       [] r.e = "Step" ->
            LET q == r.op  m == r.mnt  a == r.sh  b == r.sh2
                A1 == AcctFold(A, r.reqs, 1)
                calOK == a = b /\ SeqToSet(r.sh_ch) = SeqToSet(r.sh2_ch) /\ SeqToSet(r.sh_rm) = SeqToSet(r.sh2_rm)
                resOK == Agree(q, m, a)
                treeOK == Cores(r.exp_ch) = Cores(r.sh_ch) /\ SeqToSet(r.exp_rm) = SeqToSet(r.sh_rm)
                viewOK == ~Has(r, "view") \/ SameTree(r.view, r.shadow)
            IN
            /\ TRUE = (/\ Cal(calOK, q.op \o "|shadows-disagree", <<q, Brief(a), Brief(b)>>)
                       /\ ~sync \/ Chk(resOK, "X05|" \o q.op \o "|result|" \o m.st \o "/" \o a.st, <<q, Brief(m), Brief(a)>>)
                       /\ ~(sync /\ q.op = "utimens" /\ m.st = "OK" /\ Has(m, "times")) \/ Chk(TimesSet(q, m.times), "X05|times|utimens", <<q, m.times>>)
                       /\ ~(q.op = "utimens" /\ a.st = "OK" /\ Has(a, "times")) \/ Cal(TimesSet(q, a.times), "utimens|times", <<q, a.times>>)
                       /\ ~(esync /\ X.steps) \/ Chk(treeOK, "X05|" \o q.op \o "|tree", <<q, DiffCores(r.exp_ch, r.sh_ch), r.exp_rm, r.sh_rm>>)
                       /\ ~(sync /\ Has(r, "view")) \/
                            /\ Chk(Cores(r.view) = Cores(r.shadow), "X05|view|rows", DiffCores(r.view, r.shadow))
                            /\ Chk(Links(r.view) = Links(r.shadow), "X05|view|hard-links", <<Links(r.view) \ Links(r.shadow), Links(r.shadow) \ Links(r.view)>>)
                       /\ Proto(A, A1))
            /\ sync' = (sync /\ resOK /\ viewOK)
            /\ esync' = (esync /\ (~X.steps \/ treeOK))
            /\ A' = A1 /\ UNCHANGED X
       [] r.e = "Refs" ->
            \* the client is idle and still holds everything: the server's lookup counts are the kernel's
            LET A1 == AcctFold(A, r.reqs, 1) IN
            /\ TRUE = (/\ Proto(A, A1)
                       /\ ~r.known \/
                            /\ \A i \in DOMAIN A1.refs : Chk(i \in DOMAIN r.server /\ r.server[i] = A1.refs[i], "X05|proto|refcount-differs",
                                                               <<i, A1.refs[i], IF i \in DOMAIN r.server THEN r.server[i] ELSE 0>>)
                            /\ \A i \in DOMAIN r.server : Chk(i = "1" \/ i \in DOMAIN A1.refs, "X05|proto|table-holds-unreferenced-inode", <<i, r.server[i]>>))
            /\ A' = A1 /\ UNCHANGED <<X, sync, esync>>
       [] r.e = "End" ->
            LET A1 == AcctFold(A, r.reqs, 1) IN
            /\ TRUE = (/\ ~sync \/ Chk(SameTree(r.export, r.shadow), "X05|end|tree", DiffCores(r.export, r.shadow))
                       /\ Proto(A, A1)
                       /\ Chk(DOMAIN A1.opens = {}, "X05|proto|handles-left-open", A1.opens)
                       /\ ~(Has(r.tables, "inodes") /\ r.dropped_caches) \/
                            /\ Chk(r.tables.handles = 0, "X05|proto|handle-table-not-empty", r.tables)
                            /\ Chk(r.tables.inodes = Cardinality(DOMAIN A1.refs) + 1, "X05|proto|inode-table-size", <<r.tables, A1.refs>>))
            /\ A' = A1 /\ UNCHANGED <<X, sync, esync>>
       [] r.e = "Umount" ->
            LET A1 == AcctFold(A, r.reqs, 1) IN
            /\ TRUE = (/\ Proto(A, A1)
                       /\ Chk(r.ok, "X05|umount|failed", r)
                       /\ Chk(r.left = 0, "X05|umount|mount-left-behind", r))
            /\ A' = A1 /\ UNCHANGED <<X, sync, esync>>
       [] r.e = "Crash" ->
            /\ TRUE = Chk(FALSE, "X05|" \o (IF Has(r, "op") /\ Has(r.op, "op") THEN r.op.op ELSE "?") \o (IF r.timeout THEN "|hang" ELSE "|crash"), r)
            /\ UNCHANGED <<X, A, sync, esync>>
       [] OTHER -> UNCHANGED <<X, A, sync, esync>>
  /\ l' = l + 1
Done == l = Len(Rec) + 1 /\ PrintT(<<"ACCEPTED", Len(Rec)>>) /\ l' = l + 1 /\ UNCHANGED <<X, A, sync, esync>>
Next == Step \/ Done
Spec == Init /\ [][Next]_vars
=============================================================================
