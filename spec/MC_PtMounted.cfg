SPECIFICATION Spec
CONSTANTS
  Inos = {"2", "3"}
  Handles = {"1", "2"}
  MaxOps = 7
  Misbehave = FALSE
INVARIANTS NoFalseAlarm TableIsHeld HandlesAgree
CHECK_DEADLOCK FALSE
