SPECIFICATION Spec
CONSTANT ExtMarker = FALSE
INVARIANT InvReply
INVARIANT InvSwitches
INVARIANT InvSecond
CHECK_DEADLOCK FALSE
