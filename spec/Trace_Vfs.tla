------------------------------ MODULE Trace_Vfs ------------------------------
(* Trace specification for the vfs engine: judges the logs of harness/src/bin/vfs.rs (a real
   Server<Arc<Vfs>> with recording backends) against Vfs.tla. Monitor mode: every failed
   obligation prints <<"VIOL", signature, index, detail>> and the A-level step is still taken.

   Signatures:   C07|<situation>|<fact>                       routing
                 C14|<situation>|<fact>|<diagnosis>|<mapping source>     id translation
                 C19|...                                      negotiated options, save/restore
   <situation> is the A-level class of the request: the operation, suffixed -root-mount when node 1
   is covered by a mount on "/", lookup-mountpoint / readdirplus-mountpoint when a pseudo directory
   entry crosses into a mount, <op>-pseudo for pseudo directories, <op>-vacant for vacant indices.

   Segments (between Reset events) have a kind: "plain" segments are judged as they are; a
   "control" segment followed by "persist" segments of the same pair run the same scenario without
   and with a save/restore: nothing is printed for the control; in a persist segment an obligation
   failing after the restore is printed as C19|after-restore|<signature> unless the control fails
   it at the same step, and a step whose outcome differs from the control's without any
   obligation failing is printed as C19|<op>|differs-from-unsaved-run. *)
EXTENDS Vfs, Json, IOUtils
Rec == ndJsonDeserialize(IOEnv.TRACE)
VARIABLES l,
          segkind,     \* kind of the current segment
          after,       \* a save/restore happened in this segment
          ctl,         \* control run: step number k -> [out (what was observed), sigs (failed obligations)]
          left,        \* diagnosis only: [idx -> mapping a previous mount may have left in the slot]
          strays,      \* diagnosis only: mappings given to mounts that failed (possibly left in some slot)
          rmroot       \* the instance of this segment was configured with set_remove_pseudo_root()
tvars == <<l, segkind, after, ctl, left, strays, rmroot>>

\* a failed obligation: signature, the obligation it is about (`key` = the signature without its diagnosis), detail
F(ok, sig, d) == IF ok THEN <<>> ELSE <<[sig |-> sig, key |-> sig, d |-> ToString(d), drift |-> FALSE]>>
FK(ok, key, sig, d) == IF ok THEN <<>> ELSE <<[sig |-> sig, key |-> key, d |-> ToString(d), drift |-> FALSE]>>
FD(ok, sig, d) == IF ok THEN <<>> ELSE <<[sig |-> sig, key |-> sig, d |-> ToString(d), drift |-> TRUE]>>      \* model drift, not a failure
Dom(r) == DOMAIN r
Has(r, f) == f \in DOMAIN r
SameIno(a, b) == a.idx = b.idx /\ a.low = b.low
RECURSIVE CatI(_, _, _)
CatI(ss, i, n) == IF i > n THEN <<>> ELSE ss[i] \o CatI(ss, i + 1, n)
Cat(ss) == CatI(ss, 1, Cardinality(DOMAIN ss))
Strip(r) == [f \in DOMAIN r \ {"seg", "k", "pred"} |-> r[f]]

(* ---------------- diagnosis of a wrong id (classification only) ---------------- *)
MapSrc(idx) == IF Given(given[idx]) THEN (IF IsMap(given[idx]) THEN "own-map" ELSE "own-empty-range-map") ELSE IF IsMap(gmap) THEN "global-map" ELSE "no-map"
\* after a save/restore an id that should go through the global mapping and comes out unchanged is classed as such
\* (a stray per-mount mapping that leaves the id alone would explain it too)
LostGlobal(got, x, idx) == after /\ got = x /\ IsMap(gmap) /\ ~Given(given[idx])
DiagIn(got, x, idx) ==
  IF LostGlobal(got, x, idx) THEN "not-translated" ELSE
  IF ~Given(given[idx]) /\ \E m \in {left[idx]} \cup strays : IsMap(m) /\ In(m, x) # In(AEff(idx), x) /\ got = In(m, x) THEN "stale-slot-mapping"
  ELSE IF Given(given[idx]) /\ got = In(gmap, x) THEN "global-instead-of-mount-mapping"
  ELSE IF got = x THEN "not-translated"
  ELSE IF got = Out(AEff(idx), x) THEN "wrong-direction" ELSE "wrong-id"
DiagOut(got, x, idx) ==
  IF LostGlobal(got, x, idx) THEN "not-translated" ELSE
  \* (the root entry of a mount that inherited a stale mapping is translated with it at mount time and at lookup time)
  IF ~Given(given[idx]) /\ \E m \in {left[idx]} \cup strays : IsMap(m) /\ got # Out(AEff(idx), x) /\ got \in {Out(m, x), Out(m, Out(m, x))} THEN "stale-slot-mapping"
  ELSE IF got = Out(AEff(idx), Out(AEff(idx), x)) THEN "translated-twice"
  ELSE IF Given(given[idx]) /\ got = Out(gmap, x) THEN "global-instead-of-mount-mapping"
  ELSE IF got = x THEN "not-translated"
  ELSE IF got = In(AEff(idx), x) THEN "wrong-direction" ELSE "wrong-id"
CkIn(sit, fact, got, x, idx) ==
  FK(got = In(AEff(idx), x), "C14|" \o sit \o "|" \o fact, "C14|" \o sit \o "|" \o fact \o "|" \o DiagIn(got, x, idx) \o "|" \o MapSrc(idx),
    [got |-> got, sent |-> x, expected |-> In(AEff(idx), x), idx |-> idx])
CkOut(sit, fact, got, x, idx) ==
  FK(got = Out(AEff(idx), x), "C14|" \o sit \o "|" \o fact, "C14|" \o sit \o "|" \o fact \o "|" \o DiagOut(got, x, idx) \o "|" \o MapSrc(idx),
    [got |-> got, backend |-> x, expected |-> Out(AEff(idx), x), idx |-> idx])

(* ---------------- requests ---------------- *)
EntryOps == {"lookup", "symlink", "mknod", "mkdir", "link", "create"}
AttrOps == {"getattr", "setattr"}
DirOps == {"readdir", "readdirplus"}
TwoOps == {"rename", "rename2", "link"}
NoReplyOps == {"forget", "batch_forget"}
Method(op) == IF op = "rename2" THEN "rename" ELSE IF op = "batch_forget" THEN "forget" ELSE op
Gate(q) == /\ q.safe_name
           /\ q.op = "open" => ~noopen
           /\ q.op = "opendir" => ~noopendir
Failed(q, rep) == IF q.op \in NoReplyOps THEN TRUE ELSE rep.status # 0
Taken(es) == SelectSeq(es, LAMBDA d : d.taken)

\* the request's second inode (link: the inode to link, rename: the new directory)
Sit(q, tg) == IF tg.via = "root" THEN q.op \o "-root-mount" ELSE IF tg.kind = "pseudo" THEN q.op \o "-pseudo"
              ELSE IF tg.kind = "none" THEN q.op \o "-" \o tg.via ELSE q.op

\* a served request on a mount: results and translated ids
Served(q, tg, c, rep) ==
  LET sit == Sit(q, tg)  i == tg.idx  ok == rep.status = 0 /\ c.ret.kind # "err" IN
  Cat(<<
    \* what the backend saw of the caller
    CkIn(sit, "ctx-uid", c.ctx.uid, q.ctx.uid, i), CkIn(sit, "ctx-gid", c.ctx.gid, q.ctx.gid, i),
    IF q.op = "setattr" /\ Has(c, "owner") THEN
       (IF q.args.valid_uid THEN CkIn(sit, "owner-uid", c.owner.uid, q.args.uid, i) ELSE <<>>) \o
       (IF q.args.valid_gid THEN CkIn(sit, "owner-gid", c.owner.gid, q.args.gid, i) ELSE <<>>)
    ELSE <<>>,
    \* what the client gets back
    IF ok /\ q.op \in EntryOps /\ c.ret.kind \in {"entry", "create"} THEN
       LET e == c.ret.entry IN
       IF e.ino.idx # 0 THEN <<>>        \* does not fit 56 bits: judged in Routed
       ELSE IF ~Has(rep, "entry") THEN F(FALSE, "C07|" \o sit \o "|entry-missing", rep)
       ELSE IF e.ino.low = "0" THEN F(rep.entry.ino.idx = 0 /\ rep.entry.ino.low = "0", "C07|" \o sit \o "|negative-entry-numbered", rep.entry.ino)
       ELSE Cat(<<F(rep.entry.ino.idx = i /\ rep.entry.ino.low = e.ino.low, "C07|" \o sit \o "|entry-inode", <<rep.entry.ino, i, e.ino.low>>),
                  F(SameIno(rep.entry.attr_ino, rep.entry.ino), "C07|" \o sit \o "|attr-ino-differs-from-entry", rep.entry),
                  CkOut(sit, "owner-uid", rep.entry.uid, e.uid, i), CkOut(sit, "owner-gid", rep.entry.gid, e.gid, i)>>)
    ELSE <<>>,
    IF ok /\ q.op \in AttrOps /\ c.ret.kind = "attr" THEN
       IF ~Has(rep, "attr") THEN F(FALSE, "C07|" \o sit \o "|attr-missing", rep)
       ELSE Cat(<<F((rep.attr.attr_ino.idx = i /\ rep.attr.attr_ino.low = tg.low) \/ (tg.via = "root" /\ SameIno(rep.attr.attr_ino, q.ino)),
                    "C07|" \o sit \o "|attr-inode", <<rep.attr.attr_ino, i, tg.low>>),
                  CkOut(sit, "owner-uid", rep.attr.uid, c.ret.uid, i), CkOut(sit, "owner-gid", rep.attr.gid, c.ret.gid, i)>>)
    ELSE <<>>,
    IF ok /\ q.op \in DirOps /\ c.ret.kind = "dirents" /\ Has(rep, "entries") THEN
       LET off == Taken(c.ret.entries)  got == rep.entries  plus == q.op = "readdirplus" IN
       F(Len(got) = Len(off), "C07|" \o sit \o "|entry-count", <<Len(got), Len(off)>>) \o
       Cat([j \in 1..(IF Len(got) < Len(off) THEN Len(got) ELSE Len(off)) |->
            LET o == off[j] g == got[j] num == IF plus THEN o.entry.ino ELSE o.ino IN
            Cat(<<F(g.name = o.name, "C07|" \o sit \o "|entry-name", <<g.name, o.name>>),
                  F(g.dino.idx = i /\ g.dino.low = num.low, "C07|" \o sit \o "|dirent-inode", <<g.dino, i, num.low>>),
                  IF plus THEN Cat(<<F(SameIno(g.ino, g.dino) /\ SameIno(g.attr_ino, g.dino), "C07|" \o sit \o "|entry-inode", g),
                                     CkOut(sit, "owner-uid", g.uid, o.entry.uid, i), CkOut(sit, "owner-gid", g.gid, o.entry.gid, i)>>)
                  ELSE <<>>>>)])
    ELSE <<>>
  >>)

\* delivery: which backend, which inode number, how often
Routed(q, tg, tg2, calls, rep) ==
  LET sit == Sit(q, tg)  op == q.op  two == op \in TwoOps
      same == ~two \/ (tg2.kind = tg.kind /\ tg2.idx = tg.idx)
      \* link: the logged `ino` is the inode to link (second inode of the request)
      cin(c) == IF op = "link" THEN c.ino2 ELSE c.ino
      cin2(c) == IF op = "link" THEN c.ino ELSE c.ino2
  IN Cat(<<
    F(Len(calls) <= 1, "C07|" \o sit \o "|multiple-backend-calls", [j \in 1..Len(calls) |-> <<calls[j].backend, calls[j].m>>]),
    IF tg.kind # "mount" THEN
       F(calls = <<>>, "C07|" \o sit \o "|backend-called", [j \in 1..Len(calls) |-> <<calls[j].backend, calls[j].m>>]) \o
       \* a vacant index: the request fails (a number of the pseudo file system that was never handed out is
       \* only required not to reach a backend)
       (IF tg.via = "vacant" THEN F(Failed(q, rep), "C07|" \o sit \o "|request-served", rep) ELSE <<>>)
    ELSE Cat(<<
       Cat([j \in 1..Len(calls) |-> LET c == calls[j] IN Cat(<<
            F(c.backend = slot[tg.idx], "C07|" \o sit \o "|wrong-backend", <<c.backend, slot[tg.idx]>>),
            F(c.m = Method(op), "C07|" \o sit \o "|wrong-method", <<c.m, op>>),
            IF Has(c, "ino") /\ (op # "link" \/ Has(c, "ino2"))
            THEN F(cin(c).idx = 0 /\ cin(c).low = tg.low, "C07|" \o sit \o "|backend-inode", <<cin(c), tg.low>>) ELSE <<>>,
            IF two /\ same /\ Has(c, "ino2") THEN F(cin2(c).idx = 0 /\ cin2(c).low = tg2.low, "C07|" \o sit \o "|backend-inode-2", <<cin2(c), tg2.low>>) ELSE <<>> >>)]),
       IF ~same THEN F(calls = <<>> /\ Failed(q, rep), "C07|" \o op \o "|cross-mount-not-refused", <<tg, tg2>>) ELSE <<>>,
       IF same /\ tg.live /\ (two => tg2.live) /\ Gate(q)
       THEN F(Len(calls) >= 1, "C07|" \o sit \o "|live-inode-not-delivered", rep) ELSE <<>>,
       \* a backend number that does not fit 56 bits must not be handed out
       IF Len(calls) = 1 /\ q.op \in EntryOps /\ calls[1].ret.kind \in {"entry", "create"} /\ calls[1].ret.entry.ino.idx # 0
       THEN F(Failed(q, rep), "C07|" \o sit \o "|oversized-backend-inode-handed-out", rep) ELSE <<>>,
       IF Len(calls) = 1 /\ calls[1].backend = slot[tg.idx] /\ calls[1].m = Method(op) THEN Served(q, tg, calls[1], rep) ELSE <<>> >>)
  >>)

\* pseudo directories: names, numbers, crossing at mount points
Pseudo(q, tg, rep) ==
  LET node == q.ino.lown  op == q.op IN
  IF op = "lookup" THEN
     LET c == PseudoChild(node, q.args.name) IN
     IF c = 0 THEN F(rep.status # 0, "C07|lookup-pseudo|missing-name-found", rep)
     ELSE IF IsMp(c) THEN
        LET i == mp[c] IN
        F(rep.status = 0 /\ Has(rep, "entry"), "C07|lookup-mountpoint|failed", rep) \o
        (IF rep.status = 0 /\ Has(rep, "entry") THEN Cat(<<
            F(SameIno(rep.entry.ino, NodeIno(c)), "C07|lookup-mountpoint|does-not-cross-into-mount-root", <<rep.entry.ino, NodeIno(c)>>),
            F(SameIno(rep.entry.attr_ino, rep.entry.ino), "C07|lookup-mountpoint|attr-ino-differs-from-entry", rep.entry),
            CkOut("lookup-mountpoint", "root-uid", rep.entry.uid, mroot[i].uid, i),
            CkOut("lookup-mountpoint", "root-gid", rep.entry.gid, mroot[i].gid, i)>>) ELSE <<>>)
     ELSE F(rep.status = 0 /\ Has(rep, "entry"), "C07|lookup-pseudo|failed", rep) \o
          (IF rep.status = 0 /\ Has(rep, "entry") THEN
              F(SameIno(rep.entry.ino, NodeIno(c)), "C07|lookup-pseudo|wrong-inode", <<rep.entry.ino, NodeIno(c)>>) ELSE <<>>)
  ELSE IF op = "getattr" THEN
     F(rep.status = 0 /\ Has(rep, "attr"), "C07|getattr-pseudo|failed", rep) \o
     (IF rep.status = 0 /\ Has(rep, "attr") THEN F(SameIno(rep.attr.attr_ino, q.ino), "C07|getattr-pseudo|wrong-inode", rep.attr) ELSE <<>>)
  ELSE IF op \in DirOps /\ rep.status = 0 /\ Has(rep, "entries") THEN
     LET kids == pn[node].kids  got == rep.entries  plus == op = "readdirplus"
         KidOf(name) == Child(pn, node, name)
     IN Cat(<<
        \* all the children (a reply buffer of 8 KiB holds at least 40 entries), each once
        F({got[j].name : j \in 1..Len(got)} \subseteq {pn[kids[j]].name : j \in 1..Len(kids)}
          /\ Cardinality({got[j].name : j \in 1..Len(got)}) = Len(got) /\ (Len(kids) <= 40 => Len(got) = Len(kids)),
          "C07|" \o op \o "-pseudo|entry-names", <<[j \in 1..Len(got) |-> got[j].name], [j \in 1..Len(kids) |-> pn[kids[j]].name]>>),
        Cat([j \in 1..Len(got) |-> LET g == got[j] k == KidOf(g.name) IN
             IF k = 0 THEN <<>> ELSE
             LET sit == IF IsMp(k) THEN op \o "-mountpoint" ELSE op \o "-pseudo" IN Cat(<<
               F(SameIno(g.dino, NodeIno(k)), "C07|" \o sit \o "|dirent-inode", <<g.name, g.dino, NodeIno(k)>>),
               IF plus THEN F(SameIno(g.ino, g.dino) /\ SameIno(g.attr_ino, g.dino), "C07|" \o sit \o "|entry-inode", g) ELSE <<>>,
               IF plus /\ IsMp(k) THEN CkOut(sit, "root-uid", g.uid, mroot[mp[k]].uid, mp[k]) \o CkOut(sit, "root-gid", g.gid, mroot[mp[k]].gid, mp[k])
               ELSE <<>> >>)]) >>)
  ELSE <<>>

Eager(x) == CHOOSE y \in {x} : TRUE      \* evaluate once (TLC passes operator arguments by name)
JudgeReq(q, calls, rep) ==
  LET tg == Eager(Target(q.ino))
      tg2 == IF q.op \in TwoOps THEN Eager(Target(q.ino2)) ELSE tg
  IN Routed(q, tg, tg2, calls, rep) \o (IF tg.kind = "pseudo" /\ calls = <<>> THEN Pseudo(q, tg, rep) ELSE <<>>)

\* numbers handed out by this reply (by the current occupant of their index)
Handed(q, calls, rep) ==
  LET tg == Target(q.ino) IN
  IF tg.kind = "mount" /\ Len(calls) = 1 /\ rep.status = 0 /\ calls[1].ret.kind # "err" THEN
     LET c == calls[1] IN
     IF q.op \in EntryOps /\ c.ret.kind \in {"entry", "create"} /\ c.ret.entry.ino.idx = 0 /\ c.ret.entry.ino.low # "0"
     THEN {<<tg.idx, c.ret.entry.ino.low>>}
     ELSE IF q.op \in DirOps /\ c.ret.kind = "dirents"
     THEN {<<tg.idx, (IF q.op = "readdirplus" THEN d.entry.ino.low ELSE d.ino.low)>> : d \in {Taken(c.ret.entries)[j] : j \in 1..Len(Taken(c.ret.entries))}}
     ELSE {}
  ELSE {}

\* predictions of the I-level model attached by the replay (model drift, not a property failure)
Drift(q, calls, rep) ==
  IF ~Has(q, "pred") THEN <<>> ELSE
  LET p == q.pred IN
  (IF Has(p, "ctx") /\ Len(calls) = 1 THEN FD(calls[1].ctx.uid = p.ctx, "DRIFT|" \o q.op \o "|ctx-uid", <<calls[1].ctx.uid, p.ctx>>) ELSE <<>>) \o
  (IF Has(p, "uid") /\ rep.status = 0 THEN
      IF Has(rep, "entry") THEN FD(rep.entry.uid = p.uid, "DRIFT|" \o q.op \o "|entry-uid", <<rep.entry.uid, p.uid>>)
      ELSE IF Has(rep, "attr") THEN FD(rep.attr.uid = p.uid, "DRIFT|" \o q.op \o "|attr-uid", <<rep.attr.uid, p.uid>>)
      ELSE IF Has(rep, "entries") /\ Has(p, "name") THEN
           LET hit == SelectSeq(rep.entries, LAMBDA g : g.name = p.name) IN
           IF hit = <<>> \/ ~Has(hit[1], "uid") THEN <<>> ELSE FD(hit[1].uid = p.uid, "DRIFT|" \o q.op \o "|dirent-uid", <<hit[1].uid, p.uid>>)
      ELSE <<>>
   ELSE <<>>)

(* ---------------- control operations ---------------- *)
InitCalls(ev) == SelectSeq(ev.calls, LAMBDA c : c.m = "init")
InitOk(ev) == "init_ok" \notin DOMAIN ev \/ ev.init_ok       \* the backend's init() does not fail
JudgeMount(ev) ==
  Cat(<<
    F(ev.ret # "panic", "C07|mount|panic", ev.path),
    IF ev.ret = "ok" THEN F(AMountPre(ev.idx), "C07|mount|index-zero-or-occupied", <<ev.idx, ev.path>>)
    ELSE F(AMountFailPre(ev.abs, ev.backend_ok /\ (InitOk(ev) \/ ~inited)), "C07|mount|refused-with-free-index", ev.path),
    \* a backend mounted after INIT is initialised with the negotiated options, before INIT it is not
    IF ev.ret = "ok" THEN
       IF inited THEN F(Len(InitCalls(ev)) = 1 /\ InitCalls(ev)[1].capable = negopt,
                         "C19|mount|negotiated-options-not-passed-to-backend" \o (IF negopt = "0" THEN "|init-offered-no-capability" ELSE ""), <<InitCalls(ev), negopt>>)
       ELSE F(InitCalls(ev) = <<>>, "C19|mount|backend-initialised-before-init", InitCalls(ev))
    ELSE <<>>,
    IF Has(ev, "pred") THEN FD(ev.pred.idx = ev.idx, "DRIFT|mount|index", <<ev.idx, ev.pred.idx>>) ELSE <<>> >>)
JudgeUmount(ev) ==
  Cat(<<
    F(ev.ret # "panic", "C07|umount|panic", ev.path),
    IF ev.ret = "ok" THEN F(AUmountPre(ev.abs, ev.comps), "C07|umount|accepted-for-a-path-that-is-no-mount-point", ev.path)
    ELSE F(~AUmountPre(ev.abs, ev.comps), "C07|umount|mount-point-refused", ev.path),
    IF Has(ev, "pred") THEN FD(ev.pred.ok = (ev.ret = "ok"), "DRIFT|umount|result", ev.ret) ELSE <<>> >>)
JudgeRemount(ev) ==
  Cat(<<
    F(ev.ret # "panic", "C07|remount|panic", ev.path),
    IF ev.ret = "ok" THEN F(ARemountPre(ev.abs, ev.comps, ev.idx), "C07|remount|accepted-for-a-path-not-mounted-at-that-index", <<ev.path, ev.idx>>)
    ELSE F(~ARemountPre(ev.abs, ev.comps, ev.idx), "C07|remount|re-attach-in-place-refused", <<ev.path, ev.idx>>) >>)
Refuses(ev) == "backend_refuses" \in DOMAIN ev /\ ev.backend_refuses
JudgeInit(ev) ==
  Cat(<<
    IF ev.status = 0 THEN F(AInitPre, "C19|init|second-init-accepted" \o (IF negopt = "0" THEN "|first-init-offered-no-capability" ELSE ""), ev.opts)
    ELSE F(~AInitPre \/ Refuses(ev), "C19|init|first-init-refused", ev.status),
    \* Vfs::init gives up at the first backend whose init() fails
    IF ev.status = 0 /\ AInitPre THEN F(~Refuses(ev), "C19|init|accepted-although-a-mounted-backend-refuses", ev.opts) ELSE <<>>,
    IF Has(ev, "pred") THEN FD(ev.pred.ok = (ev.status = 0), "DRIFT|init|result", ev.status) ELSE <<>> >>)

(* ---------------- plumbing ---------------- *)
IsDrift(f) == f.drift
PrintAll(fs0) == \E fs \in {fs0} : \A j \in 1..Len(fs) : PrintT(<<(IF IsDrift(fs[j]) THEN "DRIFTV" ELSE "VIOL"), fs[j].sig, l, fs[j].d>>)
Sigs(fs) == {fs[j].key : j \in 1..Len(fs)}
Rewrap(s) == "C19|after-restore|" \o s
\* what differs between two runs that both satisfy every obligation of the step: only ids the property does
\* not constrain (owner ids of pseudo directories and of negative entries, SETATTR owner fields whose valid bit
\* is clear; the library applies the mappings to them as well), or something else
NoIds(e) == [f \in DOMAIN e \ {"uid", "gid"} |-> e[f]]
RepNoIds(rep) == [f \in DOMAIN rep |-> IF f \in {"entry", "attr"} THEN NoIds(rep[f])
                                       ELSE IF f = "entries" THEN [j \in 1..Len(rep[f]) |-> NoIds(rep[f][j])] ELSE rep[f]]
DirentNoIds(d) == [f \in DOMAIN d |-> IF f = "entry" THEN NoIds(d[f]) ELSE d[f]]
RetNoIds(r) == [f \in DOMAIN r \ {"uid", "gid"} |->
                  IF f = "entry" THEN NoIds(r[f]) ELSE IF f = "entries" THEN [j \in 1..Len(r[f]) |-> DirentNoIds(r[f][j])] ELSE r[f]]
CallNoIds(c) == [f \in DOMAIN c \ {"ctx", "owner"} |-> IF f = "ret" THEN RetNoIds(c[f]) ELSE c[f]]
DiffClass(a, b) ==
  IF "rep" \in DOMAIN a /\ "rep" \in DOMAIN b /\ Len(a.calls) = Len(b.calls)
     /\ [j \in 1..Len(a.calls) |-> CallNoIds(a.calls[j])] = [j \in 1..Len(b.calls) |-> CallNoIds(b.calls[j])]
     /\ RepNoIds(a.rep) = RepNoIds(b.rep)
  THEN "unconstrained-ids-differ-from-unsaved-run|" \o (IF a.calls = <<>> THEN "pseudo" ELSE "backend") \o (IF IsMap(gmap) THEN "|global-map" ELSE "|no-global-map")
  ELSE "differs-from-unsaved-run"
\* what is reported for step k with observed outcome `out` and failed obligations fs
Report(k, op, out, fs) ==
  IF segkind = "plain" THEN fs
  ELSE IF segkind = "control" THEN SelectSeq(fs, IsDrift)
  ELSE IF ~after THEN <<>>
  ELSE LET base == IF k \in DOMAIN ctl THEN ctl[k].sigs ELSE {}
           new == SelectSeq(fs, LAMBDA f : ~IsDrift(f) /\ f.key \notin base)       \* obligations the unsaved run satisfies
       IN [j \in 1..Len(new) |-> [sig |-> Rewrap(new[j].sig), key |-> new[j].key, d |-> new[j].d, drift |-> FALSE]] \o
          \* a different outcome although both runs satisfy every obligation at this step
          (IF SelectSeq(fs, LAMBDA f : ~IsDrift(f)) = <<>> /\ k \in DOMAIN ctl /\ ctl[k].sigs = {} /\ ctl[k].out # out
           THEN <<[sig |-> "C19|" \o op \o "|" \o DiffClass(out, ctl[k].out), key |-> "", d |-> ToString(<<out, ctl[k].out>>), drift |-> FALSE]>> ELSE <<>>)
Remember(k, out, fs) == ctl' = IF segkind = "control" THEN (k :> [out |-> out, sigs |-> Sigs(fs)]) @@ ctl ELSE ctl

RECURSIVE ReplyAt(_)
ReplyAt(j) == IF j > Len(Rec) THEN 0 ELSE IF Rec[j].e = "Reply" THEN j ELSE IF Rec[j].e = "BackendCall" THEN ReplyAt(j + 1) ELSE 0

Init == /\ l = 1 /\ segkind = "plain" /\ after = FALSE /\ ctl = <<>> /\ left = [i \in 0..N-1 |-> NoMap]
        /\ strays = {} /\ rmroot = FALSE /\ AInit(NoMap)

StepReset(r) ==
  /\ slot' = [i \in 0..N-1 |-> Vacant] /\ mroot' = [i \in 0..N-1 |-> NoRoot]
  /\ given' = [i \in 0..N-1 |-> NoMap] /\ gmap' = Canon(r.gmap)
  /\ pn' = EmptyTree /\ nextino' = 2 /\ mp' = <<>> /\ issued' = {}
  /\ inited' = FALSE /\ negopt' = "" /\ noopen' = r.opts.no_open /\ noopendir' = r.opts.no_opendir
  /\ segkind' = r.kind /\ after' = FALSE /\ left' = [i \in 0..N-1 |-> NoMap] /\ strays' = {}
  /\ rmroot' = ("remove_pseudo_root" \in DOMAIN r.opts /\ r.opts.remove_pseudo_root)
  /\ ctl' = IF r.kind = "persist" THEN ctl ELSE <<>>
  /\ l' = l + 1

\* filler mounts at /<dir>/1../<dir>/last (indices = names), the first ones unmounted again
StepPrefill(r) ==
  LET d == r.dirnode
      kid(i) == d + i
      t1 == [n \in {RootNode, d} \cup {kid(i) : i \in 1..r.last} |->
               IF n = RootNode THEN [parent |-> RootNode, name |-> "/", kids |-> <<d>>]
               ELSE IF n = d THEN [parent |-> RootNode, name |-> r.dir, kids |-> [i \in 1..r.last |-> kid(i)]]
               ELSE [parent |-> d, name |-> ToString(n - d), kids |-> <<>>]]
  IN /\ pn' = t1 /\ nextino' = r.nextino
     /\ slot' = [i \in 0..N-1 |-> IF i >= r.first /\ i <= r.last THEN r.backend ELSE Vacant]
     /\ mroot' = [i \in 0..N-1 |-> IF i >= r.first /\ i <= r.last THEN [low |-> r.rootlow, uid |-> Zero, gid |-> Zero] ELSE NoRoot]
     /\ mp' = [n \in {kid(i) : i \in r.first..r.last} |-> n - d]
     /\ UNCHANGED <<given, gmap, issued, inited, negopt, noopen, noopendir, segkind, after, ctl, left, strays, rmroot>>
     /\ l' = l + 1

StepMount(r) ==
  \E fs \in {JudgeMount(r)} : \E m \in {IF r.some THEN r.map ELSE NoMap} :
  \E out \in {[ret |-> r.ret, idx |-> r.idx]} :       \* the backend calls of a mount are judged by JudgeMount
     /\ PrintAll(Report(r.k, "mount", out, fs))
     /\ Remember(r.k, out, fs)
     /\ IF r.ret = "ok" /\ r.idx \in 1..N-1
        THEN /\ AMountEff(r.comps, r.backend, m, r.root, r.idx)
             /\ left' = IF r.some THEN [left EXCEPT ![r.idx] = r.map] ELSE left
             /\ UNCHANGED strays
        ELSE /\ UNCHANGED <<avars, left>>
             /\ strays' = IF r.some THEN strays \cup {r.map} ELSE strays
     /\ UNCHANGED <<segkind, after, rmroot>> /\ l' = l + 1

StepUmount(r) ==
  \E fs \in {JudgeUmount(r)} : \E out \in {[ret |-> r.ret]} :
     /\ PrintAll(Report(r.k, "umount", out, fs))
     /\ Remember(r.k, out, fs)
     /\ IF r.ret = "ok" /\ AUmountPre(r.abs, r.comps)
        THEN AUmountEff(r.comps, rmroot) /\ left' = [left EXCEPT ![mp[Walk(r.comps)]] = NoMap]
        ELSE UNCHANGED <<avars, left>>
     /\ UNCHANGED <<segkind, after, strays, rmroot>> /\ l' = l + 1

StepRemount(r) ==
  \E fs \in {JudgeRemount(r)} : \E out \in {[ret |-> r.ret, idx |-> r.idx]} :
     /\ PrintAll(Report(r.k, "remount", out, fs))
     /\ Remember(r.k, out, fs)
     /\ IF r.ret = "ok" /\ ARemountPre(r.abs, r.comps, r.idx) THEN ARemountEff(r.backend, r.root, r.idx) ELSE UNCHANGED avars
     /\ UNCHANGED <<segkind, after, left, strays, rmroot>> /\ l' = l + 1

StepInit(r) ==
  \E fs \in {JudgeInit(r)} : \E out \in {[status |-> r.status, opts |-> r.opts]} :
     /\ PrintAll(Report(r.k, "init", out, fs))
     /\ Remember(r.k, out, fs)
     /\ IF r.status = 0 /\ AInitPre THEN AInitEff(r.opts, r.zmo, r.zmod)
        ELSE IF r.status # 0 /\ AInitPre /\ Refuses(r) THEN AInitRefusedEff(r.zmo, r.zmod)
        ELSE UNCHANGED avars
     /\ UNCHANGED <<segkind, after, left, strays, rmroot>> /\ l' = l + 1

StepSaveRestore(r) ==
  /\ TRUE = (IF r.ret \in {"ok", "skipped"} THEN TRUE
             ELSE PrintT(<<"VIOL", "C19|save-restore-v" \o ToString(r.version) \o "|" \o r.ret, l, ToString(r)>>))
  /\ TRUE = (IF r.ret = "ok" /\ \E j \in 1..Len(r.steps) : r.steps[j].ret # "ok"
             THEN PrintT(<<"VIOL", "C19|save-restore-v" \o ToString(r.version) \o "|backend-not-reattached", l, ToString(r.steps)>>) ELSE TRUE)
  /\ ASaveRestore
  /\ after' = (after \/ r.ret = "ok")
  /\ UNCHANGED <<segkind, ctl, left, strays, rmroot>> /\ l' = l + 1

StepReq(q) ==
  \E j \in {ReplyAt(l + 1)} :
  IF j = 0 THEN /\ PrintT(<<"VIOL", "C07|trace|request-without-reply-event", l, ToString(q)>>)
                /\ UNCHANGED <<avars, segkind, after, ctl, left, strays, rmroot>> /\ l' = l + 1
  ELSE \E calls \in {SubSeq(Rec, l + 1, j - 1)} : \E rep \in {Rec[j]} :
       \E fs \in {JudgeReq(q, calls, rep) \o Drift(q, calls, rep)} :
       \E out \in {IF segkind = "plain" THEN <<>> ELSE [calls |-> [i \in 1..Len(calls) |-> Strip(calls[i])], rep |-> Strip(rep)]} :
          /\ PrintAll(Report(q.k, q.op, out, fs))
          /\ Remember(q.k, out, fs)
          /\ AIssue(Handed(q, calls, rep))
          /\ UNCHANGED <<segkind, after, left, strays, rmroot>> /\ l' = j + 1

Step ==
  /\ l <= Len(Rec)
  /\ LET r == Rec[l] IN
     CASE r.e = "Reset" -> StepReset(r)
       [] r.e = "Prefill" -> StepPrefill(r)
       [] r.e = "Mount" -> StepMount(r)
       [] r.e = "Umount" -> StepUmount(r)
       [] r.e = "Init" -> StepInit(r)
       [] r.e = "Remount" -> StepRemount(r)
       [] r.e = "SaveRestore" -> StepSaveRestore(r)
       [] r.e = "Req" -> StepReq(r)
       [] OTHER -> UNCHANGED <<avars, segkind, after, ctl, left, strays, rmroot>> /\ l' = l + 1
Done == l = Len(Rec) + 1 /\ PrintT(<<"ACCEPTED", Len(Rec)>>) /\ l' = l + 1 /\ UNCHANGED <<avars, segkind, after, ctl, left, strays, rmroot>>
Next == Step \/ Done
\* the trace is deterministic and l only grows: fingerprint the position, not the (large) state
TraceView == l
Spec == Init /\ [][Next]_<<avars, tvars>>
=============================================================================
