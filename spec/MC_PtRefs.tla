------------------------------ MODULE MC_PtRefs ------------------------------
(* Model-checking instances of PtRefsImpl (I => A). One module, several .cfg files:
     MC_PtRefs_refs*.cfg   C08: histories over <= 3 files x {inode_file_handles} x {use_host_ino}
     MC_PtRefs_res*.cfg    C15: open/release/forget/destroy histories with FailAt(n) x {no_open} x {no_opendir} x {fh}
     MC_PtRefs_dir*.cfg    C16: every resume pattern over directories of 0..4 entries, dots anywhere in the stream *)
EXTENDS PtRefsImpl
NamesAB == <<"a", "b">>
CfgRefs == {[fh |-> f, hostino |-> h, no_open |-> FALSE, no_opendir |-> TRUE, via |-> "pt", seal |-> FALSE] : f \in BOOLEAN, h \in BOOLEAN}
           \cup {[fh |-> f, hostino |-> FALSE, no_open |-> FALSE, no_opendir |-> TRUE, via |-> "pt", seal |-> TRUE] : f \in BOOLEAN}
CfgRes == {[fh |-> f, hostino |-> FALSE, no_open |-> o, no_opendir |-> d, via |-> "pt", seal |-> FALSE] : f \in BOOLEAN, o \in BOOLEAN, d \in BOOLEAN}
          \cup {[fh |-> FALSE, hostino |-> FALSE, no_open |-> o, no_opendir |-> o, via |-> "pt", seal |-> TRUE] : o \in BOOLEAN}
CfgResQ == {c \in CfgRes : c.no_open = c.no_opendir}
CfgDir == {[fh |-> FALSE, hostino |-> FALSE, no_open |-> FALSE, no_opendir |-> d, via |-> v, seal |-> FALSE] : d \in BOOLEAN, v \in {"pt", "pseudo"}}
NoDetail == FALSE
AnyBlame(lk, susp) == "any"
Counts12 == {1, 2}
Counts13 == {1, 3}
NoFail == {-1}
Fail02 == {-1, 0, 1, 2}
Fail03 == {-1, 0, 1, 2, 3}
Dir02 == 0..2
Dir04 == 0..4
=============================================================================
