---------------------------- MODULE OverlayImpl ----------------------------
(* I-level specification for C10/C11: what src/overlayfs/mod.rs does to the upper layer and to its
   in-memory tree, transcribed from the Rust source (line references: mod.rs at the pinned commit).

   disk[0] is the upper layer, disk[1..NLower] the lower layers (trees as in Overlay.tla).
   mem[p] is the OverlayInode the running instance has for path p: the stack of RealInodes (layer
   and the *cached* opaque flag, upper first) and the whiteout flag; NoNode when the parent's
   childrens map has no entry. The harness walks the whole tree after every step, so every visible
   directory is loaded (scan_childrens has run) in every state.

   TLC checks, for every layer content over the small universe and every operation sequence of
   bounded length:  LoadAgrees  (import/scan = union rules),  LiveIsView (C10: the live tree follows
   the operations),  StatusAgrees (C10: success/failure as an ordinary file system),  RestartSame
   (C11: the union of the directories on disk = the live tree),  LowersFrozen.
   Known findings are taint predicates over A-level terms (layers, view, operation): an operation
   whose pre-state satisfies an enabled predicate taints the behaviour and invariants are required
   of untainted behaviours only, so TLC explores past the known defects (DESIGN 2.3 item 5).

   The spec transcribes the code after the fix commits 3b1636e, 7b63330, f99fd89 (constant AsFound
   brings the as-found behaviour back for the check's anti-vacuity run).
   Not modelled: lookup counts and the inode store (forget/inode-number reservation, fix e708a31);
   side effects of failing operations (a parent or link source copied up before the operation fails). *)
EXTENDS Overlay, Json, SequencesExt

CONSTANTS NLower, MaxOps, HasUpper, Known, UpperTypes, LowerTypes,
          AsFound     \* {} : the code as it is now. A subset of {"S5", "S14", "UDIR"} models the code as it was found,
                      \* before the fix commits 3b1636e (S5), 7b63330 (S14), f99fd89 (UDIR): used by the check as an
                      \* anti-vacuity self-test (TLC must then find the corresponding counterexample again)

VARIABLES disk, mem, view, nops, taint, sm, init, hist
vars == <<disk, mem, view, nops, taint, sm, init, hist>>

LayerIds == 0..NLower
LayerSeq(d) == IF HasUpper THEN [i \in 1..(NLower + 1) |-> d[i - 1]] ELSE [i \in 1..NLower |-> d[i]]
LowerSeq(d) == [i \in 1..NLower |-> d[i]]
AView(d) == ViewOf(LayerSeq(d))

RI(l, o) == [l |-> l, o |-> o]
NoNode == [stack |-> <<>>, wh |-> FALSE]
RootNode == [stack |-> IF HasUpper THEN [i \in 1..(NLower + 1) |-> RI(i - 1, FALSE)] ELSE [i \in 1..NLower |-> RI(i, FALSE)],
             wh |-> FALSE]
MemAt(m, p) == IF p = Root THEN RootNode ELSE m[p]
First(m, p) == Head(MemAt(m, p).stack).l
InUpper(m, p) == MemAt(m, p).stack # <<>> /\ First(m, p) = 0           \* in_upper_layer()  :749
UpperOnly(n) == Len(n.stack) = 1 /\ Head(n.stack).l = 0                  \* upper_layer_only() :758
Stat(d, m, p) == d[First(m, p)][p]                                       \* OverlayInode::stat64: first real inode
NodeIsDir(d, m, p) == p = Root \/ (MemAt(m, p).stack # <<>> /\ Stat(d, m, p).t = "dir")

(* ---- scan_childrens (:604) and new_from_real_inodes (:495) ---- *)
RECURSIVE ScanLayers(_, _, _)
\* the layers of a directory node whose entries are read: stop at a non-directory, after an opaque one
ScanLayers(d, p, S) ==
  IF S = <<>> THEN <<>>
  ELSE LET ri == Head(S) IN
       IF p # Root /\ d[ri.l][p].t # "dir" THEN <<>>
       ELSE IF ri.o THEN <<ri.l>> ELSE <<ri.l>> \o ScanLayers(d, p, Tail(S))
RECURSIVE NfriRest(_, _, _)
NfriRest(d, c, E) ==
  IF E = <<>> THEN <<>>
  ELSE LET n == d[Head(E)][c] IN
       IF n.t = "wh" \/ n.t # "dir" THEN <<>>
       ELSE IF n.o THEN <<RI(Head(E), TRUE)>> ELSE <<RI(Head(E), FALSE)>> \o NfriRest(d, c, Tail(E))
Nfri(d, c, E) ==
  IF E = <<>> THEN NoNode
  ELSE LET f == Head(E) n == d[f][c] IN
       IF n.t = "wh" THEN [stack |-> <<RI(f, FALSE)>>, wh |-> TRUE]
       ELSE IF n.t # "dir" THEN [stack |-> <<RI(f, FALSE)>>, wh |-> FALSE]
       ELSE IF n.o THEN [stack |-> <<RI(f, TRUE)>>, wh |-> FALSE]
       ELSE [stack |-> <<RI(f, FALSE)>> \o NfriRest(d, c, Tail(E)), wh |-> FALSE]
RECURSIVE LoadNode(_, _)
LoadNode(d, p) ==
  IF p = Root THEN RootNode
  ELSE LET pn == LoadNode(d, Parent(p)) pp == Parent(p) IN
       IF pn = NoNode \/ pn.wh \/ ~(pp = Root \/ d[Head(pn.stack).l][pp].t = "dir") THEN NoNode
       ELSE Nfri(d, p, SelectSeq(ScanLayers(d, pp, pn.stack), LAMBDA l : d[l][p].t # "none"))
Load(d) == [p \in Paths |-> LoadNode(d, p)]

(* ---- what a client sees: do_lookup / do_readdir / getattr / read / readlink via the first real inode ---- *)
RECURSIVE Reach(_, _, _)
Reach(d, m, p) == p = Root \/ (/\ Reach(d, m, Parent(p)) /\ NodeIsDir(d, m, Parent(p))
                                /\ m[p] # NoNode /\ ~m[p].wh)
LiveView(d, m) == [p \in Paths |-> IF Reach(d, m, p) THEN [Stat(d, m, p) EXCEPT !.o = FALSE] ELSE NoneN]

(* ---- copy-up ---- *)
RECURSIVE CreateUpperDir(_, _, _, _)
\* create_upper_dir(None) :675 - parents first, mode of the original directory, xattrs not copied
CreateUpperDir(d, m, p, fid) ==
  IF p = Root \/ InUpper(m, p) THEN <<d, m>>
  ELSE LET r == CreateUpperDir(d, m, Parent(p), fid) st == Stat(d, m, p) IN
       << [r[1] EXCEPT ![0][p] = [NoneN EXCEPT !.t = "dir", !.m = st.m, !.id = fid \o p]],
          [r[2] EXCEPT ![p] = [stack |-> <<RI(0, FALSE)>> \o m[p].stack, wh |-> FALSE]] >>
\* copy_node_up :1835 (copy_symlink_up :1676, copy_regfile_up :1718: mode, whole content; no xattrs)
CopyNodeUp(d, m, p, fid) ==
  IF p = Root \/ InUpper(m, p) THEN <<d, m>>
  ELSE LET st == Stat(d, m, p) IN
       IF st.t = "dir" THEN CreateUpperDir(d, m, p, fid)
       ELSE LET r == CreateUpperDir(d, m, Parent(p), fid)
                n == IF st.t = "sym" THEN [NoneN EXCEPT !.t = "sym", !.m = 511, !.tg = st.tg, !.id = fid \o p]
                     ELSE [NoneN EXCEPT !.t = "file", !.m = st.m, !.c = st.c, !.id = fid \o p]
            IN << [r[1] EXCEPT ![0][p] = n], [r[2] EXCEPT ![p] = [stack |-> <<RI(0, FALSE)>>, wh |-> FALSE]] >>

IRes(ok, d, m) == [ok |-> ok, d |-> d, m |-> m]
IFail(d, m) == IRes(FALSE, d, m)
ParentVisible(d, m, p) == Reach(d, m, Parent(p)) /\ NodeIsDir(d, m, Parent(p))
OnUpperFile(d, p, f(_)) == [d EXCEPT ![0] = [q \in Paths |-> IF @[q].t # "none" /\ @[q].id = d[0][p].id THEN f(@[q]) ELSE @[q]]]

\* do_mkdir :1226, do_mknod :1302, do_create :1386, do_symlink :1594
IMake(d, m, o, t, tg, fid) ==
  IF ~ParentVisible(d, m, o.p) THEN IFail(d, m)
  ELSE LET n == m[o.p] IN
       IF n # NoNode /\ ~n.wh THEN IFail(d, m)                                       \* EEXIST
       ELSE LET \* do_mkdir: a directory that replaces a whiteout node is always made opaque (fix 3b1636e);
                \* as found: only "if child dir has lower layers", which a whiteout node never has
                setopq == t = "dir" /\ n # NoNode /\ (IF "S5" \in AsFound THEN ~UpperOnly(n) ELSE TRUE)
                r == CopyNodeUp(d, m, Parent(o.p), fid)
                \* delete_whiteout (when the whiteout node is in the upper layer) is subsumed by the overwrite
                new == [NoneN EXCEPT !.t = t, !.m = IF t = "sym" THEN 511 ELSE o.m % 4096, !.tg = tg, !.o = setopq, !.id = fid]
            IN IRes(TRUE, [r[1] EXCEPT ![0][o.p] = new],
                          [r[2] EXCEPT ![o.p] = [stack |-> <<RI(0, FALSE)>>, wh |-> FALSE]])

\* do_link :1502
ILink(d, m, o, fid) ==
  IF ~(o.src \in Paths /\ Reach(d, m, o.src)) \/ ~ParentVisible(d, m, o.p) THEN IFail(d, m)
  ELSE IF Stat(d, m, o.src).t = "dir" THEN IFail(d, m)                                \* EPERM
  ELSE LET n == m[o.p] IN
       IF n # NoNode /\ ~n.wh THEN IFail(d, m)                                        \* EEXIST (after the copy-ups; not modelled)
       ELSE LET r1 == CopyNodeUp(d, m, o.src, fid \o <<"s">>)
                r2 == CopyNodeUp(r1[1], r1[2], Parent(o.p), fid)
            IN IRes(TRUE, [r2[1] EXCEPT ![0][o.p] = r2[1][0][o.src]],
                          [r2[2] EXCEPT ![o.p] = [stack |-> <<RI(0, FALSE)>>, wh |-> FALSE]])

Descendants(p) == {q \in Paths : IsAncestor(p, q)}
\* do_rm :1856 (dir = rmdir) with empty_node_directory :1999
IRm(d, m, o, dir, fid) ==
  IF ~ParentVisible(d, m, o.p) THEN IFail(d, m)
  ELSE LET p == o.p n == m[p] IN
       IF n = NoNode \/ n.wh THEN IFail(d, m)                                         \* ENOENT
       ELSE LET isdir == Stat(d, m, p).t = "dir"
                kids == ChildrenOf(p)
            IN IF dir /\ ~isdir THEN IFail(d, m)                                      \* load_directory: ENOTDIR
               ELSE IF dir /\ \E k \in kids : m[k] # NoNode /\ ~m[k].wh THEN IFail(d, m)   \* ENOTEMPTY
               \* unlink of a directory: EISDIR (fix f99fd89); as found only the upper layer's unlink refused it,
               \* a lower-only directory was whiteouted as a whole
               ELSE IF ~dir /\ isdir /\ ("UDIR" \notin AsFound \/ InUpper(m, p)) THEN IFail(d, m)
               ELSE
               LET \* :1884 delete the upper layer's whiteouts inside the directory
                   emptied == {k \in kids : dir /\ InUpper(m, p) /\ m[k] # NoNode /\ InUpper(m, k)}
                   d1 == [d EXCEPT ![0] = [q \in Paths |-> IF q \in emptied THEN NoneN ELSE @[q]]]
                   m1 == [q \in Paths |-> IF q \in emptied THEN NoNode ELSE m[q]]
                   r == CopyNodeUp(d1, m1, Parent(p), fid)
                   inup == InUpper(m1, p)
                   popq == Head(MemAt(r[2], Parent(p)).stack).o                        \* :1910 cached opaque flag of the parent's upper inode
                   \* lower_layers_have_child (fix 7b63330): the topmost lower real inode of the parent that has
                   \* the name decides (a whiteout there: nothing to hide); as found: !upper_layer_only()
                   lows == SelectSeq(MemAt(r[2], Parent(p)).stack, LAMBDA ri : ri.l # 0 /\ r[1][ri.l][p].t # "none")
                   lowerHas == lows # <<>> /\ r[1][Head(lows).l][p].t # "wh"
                   need == (IF "S14" \in AsFound THEN ~UpperOnly(n) ELSE lowerHas) /\ ~(inup /\ popq)
                   d2 == IF inup THEN [r[1] EXCEPT ![0][p] = NoneN] ELSE r[1]
                   m2 == [q \in Paths |-> IF q = p \/ q \in Descendants(p) THEN NoNode ELSE r[2][q]]
               IN IF need
                  THEN IRes(TRUE, [d2 EXCEPT ![0][p] = [NoneN EXCEPT !.t = "wh", !.m = 511]],
                                  [m2 EXCEPT ![p] = [stack |-> <<RI(0, FALSE)>>, wh |-> TRUE]])
                  ELSE IRes(TRUE, d2, m2)

\* open(O_WRONLY) + write :242/:465, setattr :542, setxattr :749, removexattr :819
IModify(d, m, o, fid) ==
  IF ~Reach(d, m, o.p) THEN IFail(d, m)
  ELSE LET st == Stat(d, m, o.p)
           r == CopyNodeUp(d, m, o.p, fid)
           u == r[1][0][o.p]
       IN CASE o.op = "write" -> IF st.t # "file" THEN IFail(d, m)
                                 ELSE IRes(TRUE, OnUpperFile(r[1], o.p, LAMBDA n : [n EXCEPT !.c = WriteContent(n.c, o.off, o.c)]), r[2])
            [] o.op = "truncate" -> IF st.t # "file" THEN IFail(d, m)
                                    ELSE IRes(TRUE, OnUpperFile(r[1], o.p, LAMBDA n : [n EXCEPT !.c = Resize(n.c, o.len)]), r[2])
            [] o.op = "chmod" -> IRes(TRUE, OnUpperFile(r[1], o.p, LAMBDA n : [n EXCEPT !.m = o.m % 4096]), r[2])
            [] o.op = "setxattr" -> IRes(TRUE, OnUpperFile(r[1], o.p, LAMBDA n : [n EXCEPT !.x = {e \in n.x : e[1] # o.n} \cup {<<o.n, o.v>>}]), r[2])
            [] o.op = "removexattr" ->
                 IF ~\E e \in u.x : e[1] = o.n THEN IRes(FALSE, r[1], r[2])           \* ENODATA from the upper layer, after the copy-up
                 ELSE IRes(TRUE, OnUpperFile(r[1], o.p, LAMBDA n : [n EXCEPT !.x = {e \in n.x : e[1] # o.n}]), r[2])

IOp(d, m, o, fid) ==
  IF ~HasUpper THEN IFail(d, m)                                                       \* EROFS
  ELSE CASE o.op = "create"  -> IMake(d, m, o, "file", "", fid)
         [] o.op = "mknod"   -> IMake(d, m, o, "file", "", fid)
         [] o.op = "mkdir"   -> IMake(d, m, o, "dir", "", fid)
         [] o.op = "symlink" -> IMake(d, m, o, "sym", o.tg, fid)
         [] o.op = "link"    -> ILink(d, m, o, fid)
         [] o.op = "unlink"  -> IRm(d, m, o, FALSE, fid)
         [] o.op = "rmdir"   -> IRm(d, m, o, TRUE, fid)
         [] OTHER            -> IModify(d, m, o, fid)

(* ---- known findings as predicates over A-level terms (pre-state layers, view, operation) ---- *)
\* a visible node with xattrs (or such an ancestor) whose topmost entry is in a lower layer is copied up
NeedsCopyUpWithX(d, v, p) ==
  \E q \in Paths : /\ (q = p \/ IsAncestor(q, p)) /\ v[q].t # "none" /\ v[q].x # {}
                   /\ EntryClass(d[0], q) \in {"none"}
\* XCU = findings/ovl-copyup-xattr.md (copy-up drops xattrs), the only listed finding left. The predicates of the
\* fixed findings (S5, S14, UDIR) are gone: the I spec now transcribes the fixed code (see AsFound).
KF(k, d, v, o) ==
  CASE k = "XCU" -> \/ NeedsCopyUpWithX(d, v, o.p) \/ (o.op = "link" /\ NeedsCopyUpWithX(d, v, o.src))
                    \/ (o.op \in {"create", "mknod", "mkdir", "symlink", "link", "unlink", "rmdir"} /\ NeedsCopyUpWithX(d, v, Parent(o.p)) )
    [] OTHER -> FALSE

(* ---- the model-checking instance ---- *)
PathStr(p) == IF Len(p) = 1 THEN p[1] ELSE IF Len(p) = 2 THEN p[1] \o p[2] ELSE p[1] \o p[2] \o p[3]
InitNode(l, p, t) ==
  IF t = "none" THEN NoneN
  ELSE [t |-> IF t = "odir" THEN "dir" ELSE t,
        m |-> CASE t \in {"dir", "odir"} -> 448 + 8 * l + l  [] t = "file" -> 384 + 8 * l + l  [] t = "sym" -> 511  [] OTHER -> 0,
        c |-> IF t = "file" THEN <<"L" \o ToString(l) \o PathStr(p) \o ".0">> ELSE <<>>,
        tg |-> IF t = "sym" THEN "t" \o ToString(l) ELSE "",
        x |-> IF l > 0 /\ p = <<"b">> /\ t \in {"file", "dir", "odir"} THEN {<<"user.k", "l" \o ToString(l)>>} ELSE {},
        o |-> t = "odir", id |-> <<"L", ToString(l)>> \o p]
LayerChoices(l, Types) == {T \in [Paths -> Types] : \A p \in Paths : (T[p] # "none" /\ Len(p) > 1) => T[Parent(p)] \in {"dir", "odir"}}
Rows(T) == SetToSeq({[p |-> p, t |-> T[p].t, m |-> T[p].m, c |-> T[p].c, tg |-> T[p].tg,
                      x |-> SetToSeq(T[p].x), opq |-> IF T[p].o THEN "trusted" ELSE ""] : p \in {q \in Paths : T[q].t # "none"}})

OpsAt(p, k) ==
  {[op |-> "create", p |-> p, m |-> 384, excl |-> TRUE], [op |-> "mknod", p |-> p, m |-> 416, kind |-> "reg"],
   [op |-> "mkdir", p |-> p, m |-> 457], [op |-> "symlink", p |-> p, tg |-> "n" \o ToString(k)],
   [op |-> "unlink", p |-> p], [op |-> "rmdir", p |-> p],
   [op |-> "write", p |-> p, off |-> 0, c |-> <<"w" \o ToString(k) \o ".0">>],
   [op |-> "write", p |-> p, off |-> 1, c |-> <<"w" \o ToString(k) \o ".0">>],
   [op |-> "truncate", p |-> p, len |-> 0], [op |-> "chmod", p |-> p, m |-> 493],
   [op |-> "setxattr", p |-> p, n |-> "user.k", v |-> "v" \o ToString(k)], [op |-> "removexattr", p |-> p, n |-> "user.k"]}
  \cup {[op |-> "link", p |-> p, src |-> s] : s \in Paths \ {p}}
Ops(k) == UNION {OpsAt(p, k) : p \in Paths}

Init ==
  /\ \E U \in LayerChoices(0, UpperTypes) : \E Ls \in [1..NLower -> LayerChoices(1, LowerTypes)] :
        disk = [l \in LayerIds |-> IF l = 0 THEN (IF HasUpper THEN [p \in Paths |-> InitNode(0, p, U[p])] ELSE EmptyTree)
                                   ELSE [p \in Paths |-> InitNode(l, p, Ls[l][p])]]
  /\ mem = Load(disk)
  /\ \E L \in {LayerSeq(disk)} : view = ViewOf(L)
  /\ nops = 0 /\ taint = {} /\ sm = <<>> /\ init = disk
  /\ hist = <<>>

Step(o) ==
  LET fid == <<"n", ToString(nops)>>
      a == AOp(view, o, HasUpper, fid)
      i == IOp(disk, mem, o, fid)
  IN /\ ~a.free
     /\ a.ok \/ i.ok \/ ~HasUpper          \* an operation both refuse changes nothing (explored only without an upper layer)
     /\ disk' = i.d /\ mem' = i.m
     /\ view' = IF a.ok THEN a.v ELSE view
     /\ sm' = IF a.ok # i.ok THEN <<o.op, a.ok, i.ok>> ELSE <<>>
     /\ taint' = taint \cup {k \in Known : KF(k, disk, view, o)}
     /\ hist' = Append(hist, o)
     /\ nops' = nops + 1 /\ UNCHANGED init

Do(kind) == nops < MaxOps /\ \E o \in Ops(nops) : o.op = kind /\ Step(o)
Create == Do("create")   Mknod == Do("mknod")   Mkdir == Do("mkdir")   Symlink == Do("symlink")   Link == Do("link")
Unlink == Do("unlink")   Rmdir == Do("rmdir")   Write == Do("write")   Truncate == Do("truncate")
Chmod == Do("chmod")     Setxattr == Do("setxattr")   Removexattr == Do("removexattr")
Next == Create \/ Mknod \/ Mkdir \/ Symlink \/ Link \/ Unlink \/ Rmdir \/ Write \/ Truncate \/ Chmod \/ Setxattr \/ Removexattr
Spec == Init /\ [][Next]_vars
StateView == <<disk, mem, view, nops, taint, sm>>

Scenario == [id |-> "mc", B |-> 16, upper |-> HasUpper, names |-> SetToSeq(Names), depth |-> MaxDepth,
             layers |-> IF HasUpper THEN [k \in 1..(NLower + 1) |-> Rows(init[k - 1])] ELSE [k \in 1..NLower |-> Rows(init[k])],
             ops |-> hist]
Cex(name) == PrintT(<<"CEX", name, ToJson(Scenario)>>) /\ FALSE
Guard(name, cond) == IF taint # {} \/ cond THEN TRUE ELSE Cex(name)

\* (bound variables force TLC to evaluate Load/LayerSeq once instead of at every use of a lazy argument)
LoadAgrees   == Guard("LoadAgrees", \A m \in {Load(disk)} : \A L \in {LayerSeq(disk)} : ProjView(LiveView(disk, m)) = ProjView(ViewOf(L)))
LiveIsView   == Guard("LiveIsView", sm # <<>> \/ ProjView(LiveView(disk, mem)) = ProjView(view))
StatusAgrees == Guard("StatusAgrees", sm = <<>>)
RestartSame  == Guard("RestartSame", sm # <<>> \/ \A L \in {LayerSeq(disk)} : ProjView(ViewOf(L)) = ProjView(view))
LowersFrozen == Guard("LowersFrozen", \A k \in 1..NLower : disk[k] = init[k])

\* scenario export for the replay on the real code (simulation mode: one per walk)
Export == nops < MaxOps \/ PrintT(<<"REPLAY", ToJson(Scenario)>>)
=============================================================================
