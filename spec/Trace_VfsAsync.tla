--------------------------- MODULE Trace_VfsAsync ---------------------------
(* X06 `vfsasync`: judge of the logs of harness/src/bin/vfsasync.rs. Every history of the vfs engine runs
   twice on a fresh Server<Arc<Vfs>> with recording backends: a segment of kind "sync" (every request through
   Server::handle_message) followed by a segment of kind "async" (the ten operations with an asynchronous
   implementation - lookup getattr setattr open create read write fsync fallocate fsyncdir - through
   Server::async_handle_message -> impl AsyncFileSystem for Vfs; Req.path says which path a request took).

   The A level is Vfs.tla, the obligations are those of Trace_Vfs.tla (JudgeReq: C07 routing, C14 id
   translation), evaluated on the asynchronous segment and printed with the prefix X06|; added here:
     X06|<op>|unsafe-name-not-refused        name gate of lookup ('/') and create ('/', ".", ".."): the request
                                             fails and reaches no backend
     X06|<op>|backend-called-through-<p>-method   a request on path p' reached the backend's method of path p # p'
     X06|<op>|async-differs-from-sync|<what> equivalence: for the same request (same step number, same inode,
                                             caller ids and arguments) the asynchronous run's backend calls
                                             (backend, method, inodes, translated caller/owner ids, arguments,
                                             scripted result) and decoded reply (status, entry / attr, length
                                             and digest of the reply bytes) equal the synchronous run's
   Monitor mode: a failed obligation is printed and the A-level step is still taken. Control operations
   (mount, umount, re-attach, INIT) do not take the asynchronous path: they are followed, not judged (C07/C19
   judge them). Nothing is printed for the synchronous segment (C07 / C14 judge that path). *)
EXTENDS Trace_Vfs

AsyncOps == {"lookup", "getattr", "setattr", "open", "create", "read", "write", "fsync", "fallocate", "fsyncdir"}

NameGate(q, calls, rep) ==
  IF q.op \in {"lookup", "create"} /\ ~q.safe_name
  THEN F(calls = <<>> /\ Failed(q, rep), q.op \o "|unsafe-name-not-refused", <<q.args.name, rep.status, Len(calls)>>)
  ELSE <<>>
ViaRule(q, calls) ==
  Cat([j \in 1..Len(calls) |->
        F(calls[j].via = q.path, q.op \o "|backend-called-through-" \o calls[j].via \o "-method", <<q.path, calls[j].backend, calls[j].m>>)])

ReqKey(q) == [f \in DOMAIN q \ {"seg", "k", "pred", "path"} |-> q[f]]
CallKey(c) == [f \in DOMAIN c \ {"seg", "k", "pred", "via"} |-> c[f]]
\* a successful answer of the pseudo file system carries the wall-clock time: its bytes are not compared, its decoded fields are
RepKey(rep, calls) == IF calls = <<>> /\ rep.status = 0 THEN [f \in DOMAIN rep \ {"seg", "k", "pred", "sum"} |-> rep[f]] ELSE Strip(rep)
NonDrift(fs) == SelectSeq(fs, LAMBDA f : ~f.drift)

XReport(q, out, fs) ==
  IF segkind # "async" THEN <<>>
  ELSE (IF q.path = "async" THEN [j \in 1..Len(fs) |-> [sig |-> "X06|" \o fs[j].sig, key |-> fs[j].key, d |-> fs[j].d, drift |-> FALSE]] ELSE <<>>) \o
       (IF q.k \in DOMAIN ctl /\ ctl[q.k].req = out.req /\ (ctl[q.k].calls # out.calls \/ ctl[q.k].rep # out.rep)
        THEN <<[sig |-> "X06|" \o q.op \o "|async-differs-from-sync|" \o
                        (IF ctl[q.k].calls # out.calls THEN "backend-calls" ELSE "") \o
                        (IF ctl[q.k].calls # out.calls /\ ctl[q.k].rep # out.rep THEN "+" ELSE "") \o
                        (IF ctl[q.k].rep # out.rep THEN "reply" ELSE ""),
                key |-> "", d |-> ToString([async |-> [calls |-> out.calls, rep |-> out.rep], sync |-> [calls |-> ctl[q.k].calls, rep |-> ctl[q.k].rep]]), drift |-> FALSE]>>
        ELSE <<>>)

XStepReset(r) ==
  /\ slot' = [i \in 0..N-1 |-> Vacant] /\ mroot' = [i \in 0..N-1 |-> NoRoot]
  /\ given' = [i \in 0..N-1 |-> NoMap] /\ gmap' = Canon(r.gmap)
  /\ pn' = EmptyTree /\ nextino' = 2 /\ mp' = <<>> /\ issued' = {}
  /\ inited' = FALSE /\ negopt' = "" /\ noopen' = r.opts.no_open /\ noopendir' = r.opts.no_opendir
  /\ segkind' = r.kind /\ after' = FALSE /\ left' = [i \in 0..N-1 |-> NoMap] /\ strays' = {}
  /\ rmroot' = ("remove_pseudo_root" \in DOMAIN r.opts /\ r.opts.remove_pseudo_root)
  /\ ctl' = IF r.kind = "async" THEN ctl ELSE <<>>
  /\ l' = l + 1

XStepMount(r) ==
  \E m \in {IF r.some THEN r.map ELSE NoMap} :
     /\ IF r.ret = "ok" /\ r.idx \in 1..N-1
        THEN /\ AMountEff(r.comps, r.backend, m, r.root, r.idx)
             /\ left' = IF r.some THEN [left EXCEPT ![r.idx] = r.map] ELSE left
             /\ UNCHANGED strays
        ELSE /\ UNCHANGED <<avars, left>>
             /\ strays' = IF r.some THEN strays \cup {r.map} ELSE strays
     /\ UNCHANGED <<segkind, after, rmroot, ctl>> /\ l' = l + 1

XStepUmount(r) ==
  /\ IF r.ret = "ok" /\ AUmountPre(r.abs, r.comps)
     THEN AUmountEff(r.comps, rmroot) /\ left' = [left EXCEPT ![mp[Walk(r.comps)]] = NoMap]
     ELSE UNCHANGED <<avars, left>>
  /\ UNCHANGED <<segkind, after, strays, rmroot, ctl>> /\ l' = l + 1

XStepRemount(r) ==
  /\ IF r.ret = "ok" /\ ARemountPre(r.abs, r.comps, r.idx) THEN ARemountEff(r.backend, r.root, r.idx) ELSE UNCHANGED avars
  /\ UNCHANGED <<segkind, after, left, strays, rmroot, ctl>> /\ l' = l + 1

XStepInit(r) ==
  /\ IF r.status = 0 /\ AInitPre THEN AInitEff(r.opts, r.zmo, r.zmod)
     ELSE IF r.status # 0 /\ AInitPre /\ Refuses(r) THEN AInitRefusedEff(r.zmo, r.zmod)
     ELSE UNCHANGED avars
  /\ UNCHANGED <<segkind, after, left, strays, rmroot, ctl>> /\ l' = l + 1

XStepReq(q) ==
  \E j \in {ReplyAt(l + 1)} :
  IF j = 0 THEN /\ PrintT(<<"VIOL", "X06|trace|request-without-reply-event", l, ToString(q)>>)
                /\ UNCHANGED <<avars, segkind, after, ctl, left, strays, rmroot>> /\ l' = l + 1
  ELSE \E calls \in {SubSeq(Rec, l + 1, j - 1)} : \E rep \in {Rec[j]} :
       \E fs \in {NonDrift(JudgeReq(q, calls, rep)) \o NameGate(q, calls, rep) \o ViaRule(q, calls)} :
       \E out \in {[req |-> ReqKey(q), calls |-> [i \in 1..Len(calls) |-> CallKey(calls[i])], rep |-> RepKey(rep, calls)]} :
          /\ PrintAll(XReport(q, out, fs))
          /\ ctl' = IF segkind = "sync" THEN (q.k :> out) @@ ctl ELSE ctl
          /\ AIssue(Handed(q, calls, rep))
          /\ UNCHANGED <<segkind, after, left, strays, rmroot>> /\ l' = j + 1

XStep ==
  /\ l <= Len(Rec)
  /\ LET r == Rec[l] IN
     CASE r.e = "Reset" -> XStepReset(r)
       [] r.e = "Prefill" -> StepPrefill(r)
       [] r.e = "Mount" -> XStepMount(r)
       [] r.e = "Umount" -> XStepUmount(r)
       [] r.e = "Init" -> XStepInit(r)
       [] r.e = "Remount" -> XStepRemount(r)
       [] r.e = "Req" -> XStepReq(r)
       [] OTHER -> UNCHANGED <<avars, segkind, after, ctl, left, strays, rmroot>> /\ l' = l + 1
XNext == XStep \/ Done
XSpec == Init /\ [][XNext]_<<avars, tvars>>
=============================================================================
