SPECIFICATION Spec
INVARIANT ExportCases
CHECK_DEADLOCK FALSE
