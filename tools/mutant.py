#!/usr/bin/env python3
"""mutant.py <name> <patch.diff> <property-id>... [--tier quick|thorough] [--keep]

Measure whether the checks detect a seeded change WITHOUT touching /repo: creates a scratch git worktree
of /repo (at HEAD) under /scratch/mut-<name>/repo, applies the patch there, copies /verif/harness (without
build output) to /scratch/mut-<name>/harness with its path dependency pointing at the worktree, and runs
`./check <id>` with VERIF_HARNESS/VERIF_WORK/VERIF_EVIDENCE/VERIF_REPLAYS redirected to the scratch dir.
Prints one line per property: DETECTED (exit 1 + VIOLATION line), MISSED (exit 0), TOOL-ERROR (exit 2).
Everything is removed afterwards unless --keep."""
import os
import re
import shutil
import subprocess
import sys

V = os.path.dirname(os.path.dirname(os.path.abspath(__file__)))


def main():
    args = sys.argv[1:]
    keep = "--keep" in args
    args = [a for a in args if a != "--keep"]
    tier = "quick"
    if "--tier" in args:
        i = args.index("--tier")
        tier = args[i + 1]
        del args[i:i + 2]
    name, patch, props = args[0], os.path.abspath(args[1]), args[2:]
    base = "/scratch/mut-" + name
    shutil.rmtree(base, ignore_errors=True)
    os.makedirs(base)
    repo = os.path.join(base, "repo")
    subprocess.run(["git", "-C", "/repo", "worktree", "prune"], check=False)
    subprocess.run(["git", "-C", "/repo", "worktree", "add", "--detach", "-f", repo, "HEAD"], check=True, stdout=subprocess.DEVNULL, stderr=subprocess.DEVNULL)
    rc = 0
    try:
        r = subprocess.run(["git", "-C", repo, "apply", patch], stdout=subprocess.PIPE, stderr=subprocess.STDOUT, text=True)
        if r.returncode != 0:
            print("PATCH-DOES-NOT-APPLY %s\n%s" % (name, r.stdout))
            return 2
        h = os.path.join(base, "harness")
        # the build output is copied too (mtimes preserved): registry dependencies stay fresh, only the
        # library under test (other path => other package id) and the harness binaries are rebuilt
        subprocess.run(["cp", "-a", os.path.join(V, "harness"), h], check=True)
        ct = os.path.join(h, "Cargo.toml")
        s = open(ct).read().replace('path = "/repo"', 'path = "%s"' % repo)
        open(ct, "w").write(s)
        env = dict(os.environ, VERIF_HARNESS=h, VERIF_WORK=os.path.join(base, "work"), VERIF_EVIDENCE=os.path.join(base, "evidence"),
                   VERIF_REPLAYS=os.path.join(base, "replays"), VERIF_TIER=tier)
        for p in props:
            r = subprocess.run([os.path.join(V, "check"), p, "--tier", tier], cwd=V, env=env, stdout=subprocess.PIPE, stderr=subprocess.STDOUT, text=True)
            sigs = re.findall(r"signature: (.*)", r.stdout)
            if r.returncode == 1 and "VIOLATION property=" in r.stdout:
                print("DETECTED %s %s  %s" % (name, p, "; ".join(sigs[:3])[:300]))
            elif r.returncode == 0:
                print("MISSED %s %s" % (name, p))
                rc = max(rc, 1)
            else:
                print("TOOL-ERROR %s %s (exit %d)\n%s" % (name, p, r.returncode, r.stdout[-1500:]))
                rc = 2
    finally:
        if not keep:
            subprocess.run(["git", "-C", "/repo", "worktree", "remove", "--force", repo], check=False, stdout=subprocess.DEVNULL, stderr=subprocess.DEVNULL)
            shutil.rmtree(base, ignore_errors=True)
    return rc


if __name__ == "__main__":
    sys.exit(main())
