-------------------------------- MODULE Mpmc --------------------------------
(* X02, A level: fuse_backend_rs::common::mpmc::Channel<T> as a SEQUENTIAL object.

   State the API talks about:  q (the queued messages, oldest first)  and  closed.
   Every public method of src/common/mpmc.rs is one atomic operation with its result:

     send(m)      closed -> Err(m), nothing changes           else q' = q \o <<m>>, Ok
     try_recv     q empty -> None                             else Some(Head(q)), q' = Tail(q)
     recv         q non-empty -> Ok(Head(q)), q' = Tail(q)    q empty and closed -> Err(closed)
                  q empty and open -> NOT ENABLED (the caller waits); a recv whose future is dropped
                  while it waits ("cancelled") has no effect
     close        closed' = TRUE (idempotent); the queue is kept: receivers drain it, then get the error
     flush_pending_prefetch_requests(f)    q' = the messages of q that f rejects (order kept), returns ()
     lock_channel                          the caller sees the queue under the lock: result = Len(q)
                                           (the harness only reads the length through the guard)
     notify_waiters                        no effect on the object (it may only cause spurious wake-ups)

   What the code's doc comments say and what the code does (read 2026-09): the comments promise nothing
   about close beyond "Close the channel"; the unit test test_new_channel fixes "send after close fails".
   `recv` tries the queue BEFORE it looks at the flag, so messages queued at close time are still
   delivered ("remaining messages, then the error"): that is what this module prescribes. The comment of
   flush_pending_prefetch_requests says "Flush all pending requests specified by the predicator": the
   code REMOVES (discards) those requests, it does not deliver them; modelled as removal.

   Obligations that follow (checked on this module by MC_Mpmc.cfg over all histories of <= MaxOps
   operations, and inherited by everything that refines it):
     AtMostOnce   a message accepted by send is handed out by (try_)recv at most once
     NoInvention  only accepted messages are handed out
     Fifo         messages are handed out in the order in which they were accepted
     AfterClose   after close every send fails; recv fails only when closed and drained
   (messages are assumed distinct: the harness sends each value once per channel)

   The operators below are shared by the I level (MpmcImpl.tla: abstract state at the linearisation
   points) and by the judge of recorded concurrent histories (Trace_Mpmc.tla). *)
EXTENDS Naturals, Sequences, FiniteSets

Chan0 == [q |-> <<>>, closed |-> FALSE]

\* results are records of one shape: [k |-> kind, m |-> message or length or 0]
Res(k, m) == [k |-> k, m |-> m]
ROk == Res("ok", 0)
RNone == Res("none", 0)
RClosed == Res("closed", 0)
RUnit == Res("unit", 0)
RCancelled == Res("cancelled", 0)

Keep(q, S) == SelectSeq(q, LAMBDA x : x \notin S)

(* the sequential object: is operation o enabled on S, its result, its successor state.
   o = [op |-> "send" | "try" | "recv" | "close" | "flush" | "len" | "notifyw", m |-> message (send), set |-> set (flush)] *)
OpEnabled(S, o) == o.op # "recv" \/ S.q # <<>> \/ S.closed
OpRes(S, o) ==
  CASE o.op = "send" -> IF S.closed THEN Res("err", o.m) ELSE ROk
    [] o.op = "try" -> IF S.q = <<>> THEN RNone ELSE Res("some", Head(S.q))
    [] o.op = "recv" -> IF S.q # <<>> THEN Res("msg", Head(S.q)) ELSE RClosed
    [] o.op = "len" -> Res("len", Len(S.q))
    [] OTHER -> RUnit
OpNext(S, o) ==
  CASE o.op = "send" -> IF S.closed THEN S ELSE [S EXCEPT !.q = Append(@, o.m)]
    [] o.op \in {"try", "recv"} -> IF S.q = <<>> THEN S ELSE [S EXCEPT !.q = Tail(@)]
    [] o.op = "close" -> [S EXCEPT !.closed = TRUE]
    [] o.op = "flush" -> [S EXCEPT !.q = Keep(@, o.set)]
    [] OTHER -> S

(* ------------------------------------------------------------------------------------------------
   Weak readings used ONLY to classify a history the strict object rejects (Trace_Mpmc, MpmcImpl):
     weak send   = two atomic actions: "chk" (closed? -> Err) then "enq" (append, Ok) - the message may be
                   accepted although close took effect in between
     weak recv   = Err(closed) may be two atomic actions: "emp" (the queue is empty) then "cls" (closed) -
                   the error may be reported although a message was accepted in between
   A history that is linearisable only under a weak reading is reported as a close race, never accepted. *)

(* ------------------------------------------------------------------------------------------------
   The obligations, over a sequential history h = sequence of [o |-> operation, res |-> result]
   (MC_Mpmc.tla checks them on every history of the object above; MpmcImpl.tla checks them on the order
   of its linearisation points). *)
Accepted(h) == {i \in 1..Len(h) : h[i].o.op = "send" /\ h[i].res.k = "ok"}
HandedOut(h) == {i \in 1..Len(h) : h[i].res.k \in {"some", "msg"}}
AccIdx(h, m) == {i \in Accepted(h) : h[i].o.m = m}

AtMostOnce(h) == \A i, j \in HandedOut(h) : h[i].res.m = h[j].res.m => i = j
NoInvention(h) == \A i \in HandedOut(h) : \E j \in Accepted(h) : j < i /\ h[j].o.m = h[i].res.m
Fifo(h) == \A i, j \in HandedOut(h) : i < j =>
             \A a \in AccIdx(h, h[i].res.m), b \in AccIdx(h, h[j].res.m) : a < b
AfterClose(h) == \A c \in 1..Len(h) : h[c].o.op = "close" =>
                   \A i \in (c + 1)..Len(h) : h[i].o.op = "send" => h[i].res.k = "err"
\* recv fails only when closed and every accepted, not flushed message was handed out before
RecvErrOnlyDrained(h) ==
  \A i \in 1..Len(h) : h[i].res = RClosed =>
     /\ \E c \in 1..(i - 1) : h[c].o.op = "close"
     /\ \A a \in Accepted(h) : a < i =>
          \/ \E g \in HandedOut(h) : g < i /\ h[g].res.m = h[a].o.m
          \/ \E f \in (a + 1)..(i - 1) : h[f].o.op = "flush" /\ h[a].o.m \in h[f].o.set
ErrReturnsMessage(h) == \A i \in 1..Len(h) : h[i].o.op = "send" /\ h[i].res.k = "err" => h[i].res.m = h[i].o.m
Obligations(h) == AtMostOnce(h) /\ NoInvention(h) /\ Fifo(h) /\ AfterClose(h) /\ RecvErrOnlyDrained(h) /\ ErrReturnsMessage(h)
=============================================================================
