---------------------------- MODULE MC_Overlay ----------------------------
(* Model-checking instance of OverlayImpl (I => A for C10/C11). Configurations:
   MC_Overlay_quick.cfg     1 lower, sequences of 2 operations, reduced type universe   (< 30 s)
   MC_Overlay_thorough.cfg  1 lower, sequences of 2 operations, full type universe      (<= 10 min)
   MC_Overlay_2l.cfg        2 lowers, reduced universe (simulation / scenario export)
   MC_Overlay_noupper.cfg   no upper layer: every operation must fail
   checks/ovl.py rewrites the Known constant (enabled known-finding predicates) and AsFound per run. *)
EXTENDS OverlayImpl
\* two top-level names, children only under "a" (the prototype universe of DESIGN A.2)
MCPaths == {<<"a">>, <<"b">>, <<"a", "a">>, <<"a", "b">>}
MCPathsQ == {<<"a">>, <<"b">>, <<"a", "a">>}      \* quick configuration
=============================================================================
