//! The byte containers of src/common/file_buf.rs driven directly: `FileVolatileSlice` (Bytes<usize>
//! API, offset, conversions) and `FileVolatileBuf`. One backing buffer with canary margins; every
//! event logs the raw result, the bytes handed out, the window of the object as the object itself
//! reports it (as_ptr/len) and the COMPLETE content of the backing buffer afterwards (ramp coded).
use std::panic::{catch_unwind, AssertUnwindSafe};
use std::sync::atomic::Ordering;

use fuse_backend_rs::file_buf::{FileVolatileBuf, FileVolatileSlice};
use fuse_backend_rs::file_traits::FileReadWriteVolatile;
use std::os::unix::io::AsRawFd;
use serde_json::{json, Map, Value};
use vharness::util::{Rng, Trace};
use vm_memory::Bytes;

use crate::obs::*;

const MARGIN: usize = 64;
const FBASE: u64 = 0x3000;

enum Obj {
    S(FileVolatileSlice<'static>),
    B(FileVolatileBuf),
}

/// A file that implements ONLY the four required primitives of `FileReadWriteVolatile`, each moving at most `cap`
/// bytes per call: every other method (read_exact[_at]_volatile, write_all[_at]_volatile, the vectored ones) is the
/// trait's DEFAULT implementation of src/common/file_traits.rs, which is what the `ft.*` operations exercise.
struct Prim {
    fd: i32,
    cap: usize,
}
fn cv(r: isize) -> std::io::Result<usize> {
    if r >= 0 {
        Ok(r as usize)
    } else {
        Err(std::io::Error::last_os_error())
    }
}
impl FileReadWriteVolatile for Prim {
    fn read_volatile(&mut self, s: FileVolatileSlice) -> std::io::Result<usize> {
        cv(unsafe { libc::read(self.fd, s.as_ptr() as *mut libc::c_void, s.len().min(self.cap)) })
    }
    fn write_volatile(&mut self, s: FileVolatileSlice) -> std::io::Result<usize> {
        cv(unsafe { libc::write(self.fd, s.as_ptr() as *const libc::c_void, s.len().min(self.cap)) })
    }
    fn read_at_volatile(&mut self, s: FileVolatileSlice, off: u64) -> std::io::Result<usize> {
        cv(unsafe { libc::pread(self.fd, s.as_ptr() as *mut libc::c_void, s.len().min(self.cap), off as i64) })
    }
    fn write_at_volatile(&mut self, s: FileVolatileSlice, off: u64) -> std::io::Result<usize> {
        cv(unsafe { libc::pwrite(self.fd, s.as_ptr() as *const libc::c_void, s.len().min(self.cap), off as i64) })
    }
}

const SRC_SIZE: usize = 150;
const SRC_SALT: usize = 77;
const SINK_SIZE: usize = 400;

struct Ctx {
    backing: Vec<u8>,
    len: usize,
    objs: Vec<Obj>,
}

impl Ctx {
    fn base_ptr(&self) -> *mut u8 {
        unsafe { (self.backing.as_ptr() as *mut u8).add(MARGIN) }
    }
    fn off_of(&self, p: *const u8) -> i64 {
        p as i64 - self.base_ptr() as i64 + FBASE as i64
    }
    fn content(&self) -> Value {
        let p = self.base_ptr();
        let cur: Vec<u8> = (0..self.len).map(|i| unsafe { std::ptr::read_volatile(p.add(i)) }).collect();
        ramps(&cur)
    }
    fn canary_ok(&self) -> bool {
        self.backing[..MARGIN].iter().all(|&b| b == CANARY) && self.backing[MARGIN + self.len..].iter().all(|&b| b == CANARY)
    }
    fn win(&self, i: usize) -> Value {
        match &self.objs[i] {
            Obj::S(s) => {
                let (p, l) = (s.as_ptr(), s.len());
                json!([self.off_of(p), l, if s.is_empty() { 1 } else { 0 }])
            }
            Obj::B(b) => {
                let (l, c, e) = (b.len(), b.cap(), b.is_empty());
                let (p1, l1) = { let s = b.io_slice(); (s.as_ptr(), s.len()) };
                let (p2, l2) = { let s = b.io_slice_mut(); (s.as_ptr(), s.len()) };
                json!([self.off_of(p1), l, c, if e { 1 } else { 0 }, l1, self.off_of(p2), l2])
            }
        }
    }
}

fn res3<T, E: std::fmt::Debug>(q: std::thread::Result<Result<T, E>>) -> (&'static str, Option<T>, Option<String>) {
    match q {
        Err(_) => ("panic", None, None),
        Ok(Err(e)) => ("err", None, Some(format!("{:?}", e).chars().take(48).collect())),
        Ok(Ok(t)) => ("ok", Some(t), None),
    }
}

/// one scenario of `steps` random container operations; returns the number of operations
pub fn run_random(rng: &mut Rng, tr: &mut Trace, seg: u64, steps: usize) -> usize {
    run(rng, tr, seg, steps, None)
}

/// deterministic scenario: every container entry point once, in a fixed order, on a 64-byte buffer
/// (addresses/lengths from a generator with a fixed seed)
pub fn run_scripted(tr: &mut Trace, seg: u64) -> usize {
    const SCRIPT: [&str; 24] = [
        "fvs.write", "fvs.read", "fvs.write_slice", "fvs.read_slice", "fvs.store", "fvs.load", "fvs.offset", "fvs.view",
        "fvs.read_volatile_from", "fvs.read_exact_volatile_from", "fvs.write_volatile_to", "fvs.write_all_volatile_to",
        "fvs.borrow_as_buf", "buf.set_size", "buf.fill", "buf.peek", "buf.new", "buf.peek",
        "ft.read_exact_at", "ft.write_all_at", "ft.read_exact", "ft.write_all", "ft.read_exact_at", "ft.write_all_at",
    ];
    let mut rng = Rng::new(20260923);
    run(&mut rng, tr, seg, SCRIPT.len(), Some(&SCRIPT))
}

fn run(rng: &mut Rng, tr: &mut Trace, seg: u64, steps: usize, script: Option<&[&'static str]>) -> usize {
    let len = if script.is_some() { 64 } else { *rng.pick(&[0usize, 1, 7, 8, 9, 16, 64, 4097]) };
    let mut cx = Ctx { backing: vec![CANARY; len + 2 * MARGIN], len, objs: Vec::new() };
    for i in 0..len {
        cx.backing[MARGIN + i] = ((FBASE as usize + i) % M as usize) as u8;
    }
    let root = match rng.below(2) {
        0 => unsafe { FileVolatileSlice::from_raw_ptr(cx.base_ptr(), len) },
        _ => unsafe { FileVolatileSlice::from_mut_slice(std::slice::from_raw_parts_mut(cx.base_ptr(), len)) },
    };
    cx.objs.push(Obj::S(root));
    let w0 = cx.win(0);
    let fsrc = MFile::new("ftsrc", (0..SRC_SIZE).map(|i| ((i + SRC_SALT) % M as usize) as u8).collect());
    let mut fsink = MFile::new("ftsink", vec![FPOISON; SINK_SIZE]);
    tr.emit(&json!({"e":"Reset","seg":seg,"tr":"fvs","P":crate::PAGE,"segs":[[FBASE, len, 1]],"src":[SRC_SIZE, SRC_SALT],"sink":SINK_SIZE,"win":w0,"origin":format!("{}:{}", if script.is_some() { "targeted" } else { "random" }, seg)}));
    for i in 1..=steps {
        let forced: Option<&'static str> = script.map(|sc| sc[i - 1]);
        let oi = match forced {
            // scripted: slice operations on the root slice, buffer operations on the newest buffer
            Some(f) if f.starts_with("buf.") && f != "buf.new" => {
                cx.objs.iter().rposition(|o| matches!(o, Obj::B(_))).expect("script: buffer operation before a buffer exists")
            }
            Some(_) => 0,
            None => rng.below(cx.objs.len() as u64) as usize,
        };
        let is_slice = matches!(cx.objs[oi], Obj::S(_));
        let olen = match &cx.objs[oi] {
            Obj::S(s) => s.len(),
            Obj::B(b) => b.cap(),
        };
        let op: &str = if let Some(f) = forced {
            f
        } else if is_slice {
            *rng.pick(&[
                "fvs.write", "fvs.read", "fvs.write_slice", "fvs.read_slice", "fvs.read_slice", "fvs.store", "fvs.load",
                "fvs.offset", "fvs.view", "fvs.read_volatile_from", "fvs.read_exact_volatile_from", "fvs.write_volatile_to",
                "fvs.write_all_volatile_to", "fvs.borrow_as_buf", "buf.new", "ft.read_exact_at", "ft.read_exact_at",
                "ft.write_all_at", "ft.write_all_at", "ft.read_exact", "ft.write_all",
            ])
        } else {
            *rng.pick(&["buf.set_size", "buf.fill", "buf.peek"])
        };
        // address and length: mostly inside, sometimes touching or crossing the end
        let a = match rng.below(6) {
            0 => 0,
            1 => olen,
            2 => olen + rng.range(1, 3) as usize,
            _ => rng.below(olen as u64 + 1) as usize,
        };
        let room = olen.saturating_sub(a);
        let mut n = match rng.below(6) {
            0 => 0,
            1 => room,
            2 => room + 1,
            3 => rng.range(1, 8) as usize,
            _ => rng.below(room as u64 + 1) as usize,
        };
        let v = rng.below(251) as u8;
        let mut width = 0usize;
        let mut ev = Map::new();
        let mut out: Option<Vec<u8>> = None;
        let mut ret: Option<u64> = None;
        let mut newobj: Option<Obj> = None;
        let mut ft_a: Option<usize> = None;
        let mut ft_sink = false;
        let (res, err): (&str, Option<String>) = match (op, &mut cx.objs[oi]) {
            ("fvs.write", Obj::S(s)) => {
                let d = ramp_bytes(v, n);
                let (r, k, e) = res3(catch_unwind(AssertUnwindSafe(|| s.write(&d, a))));
                ret = k.map(|k| k as u64);
                (r, e)
            }
            ("fvs.write_slice", Obj::S(s)) => {
                let d = ramp_bytes(v, n);
                let (r, _, e) = res3(catch_unwind(AssertUnwindSafe(|| s.write_slice(&d, a))));
                (r, e)
            }
            ("fvs.read", Obj::S(s)) => {
                let mut b = vec![0xEEu8; n];
                let (r, k, e) = res3(catch_unwind(AssertUnwindSafe(|| s.read(&mut b, a))));
                ret = k.map(|k| k as u64);
                if let Some(k) = k {
                    out = Some(b[..k.min(n)].to_vec());
                }
                (r, e)
            }
            ("fvs.read_slice", Obj::S(s)) => {
                // the caller's buffer holds a ramp of its own (phase v) so that it is visible
                // whether the call filled it
                let mut b = ramp_bytes(v, n);
                let (r, k, e) = res3(catch_unwind(AssertUnwindSafe(|| s.read_slice(&mut b, a))));
                if k.is_some() {
                    out = Some(b);
                }
                (r, e)
            }
            ("fvs.store", Obj::S(s)) => {
                width = *rng.pick(&[1usize, 2, 4, 8]);
                n = width;
                let d = ramp_bytes(v, width);
                let q = catch_unwind(AssertUnwindSafe(|| match width {
                    1 => s.store(d[0], a, Ordering::SeqCst),
                    2 => s.store(u16::from_ne_bytes([d[0], d[1]]), a, Ordering::SeqCst),
                    4 => s.store(u32::from_ne_bytes([d[0], d[1], d[2], d[3]]), a, Ordering::SeqCst),
                    _ => s.store(u64::from_ne_bytes([d[0], d[1], d[2], d[3], d[4], d[5], d[6], d[7]]), a, Ordering::SeqCst),
                }));
                let (r, _, e) = res3(q);
                (r, e)
            }
            ("fvs.load", Obj::S(s)) => {
                width = *rng.pick(&[1usize, 2, 4, 8]);
                n = width;
                let q = catch_unwind(AssertUnwindSafe(|| match width {
                    1 => s.load::<u8>(a, Ordering::SeqCst).map(|x| x.to_ne_bytes().to_vec()),
                    2 => s.load::<u16>(a, Ordering::SeqCst).map(|x| x.to_ne_bytes().to_vec()),
                    4 => s.load::<u32>(a, Ordering::SeqCst).map(|x| x.to_ne_bytes().to_vec()),
                    _ => s.load::<u64>(a, Ordering::SeqCst).map(|x| x.to_ne_bytes().to_vec()),
                }));
                let (r, k, e) = res3(q);
                out = k;
                (r, e)
            }
            ("fvs.offset", Obj::S(s)) => {
                n = 0;
                let (r, k, e) = res3(catch_unwind(AssertUnwindSafe(|| s.offset(a))));
                newobj = k.map(Obj::S);
                (r, e)
            }
            ("fvs.view", Obj::S(s)) => {
                n = 0;
                let vs = s.as_volatile_slice();
                newobj = Some(Obj::S(FileVolatileSlice::from_volatile_slice(&vs)));
                ("ok", None)
            }
            ("fvs.read_volatile_from", Obj::S(s)) => {
                // source: a byte slice of n bytes; count = n (sometimes larger than the source)
                let d = ramp_bytes(v, n);
                let mut src: &[u8] = &d;
                let (r, k, e) = res3(catch_unwind(AssertUnwindSafe(|| s.read_volatile_from(a, &mut src, n))));
                ret = k.map(|k| k as u64);
                (r, e)
            }
            ("fvs.read_exact_volatile_from", Obj::S(s)) => {
                let d = ramp_bytes(v, n);
                let mut src: &[u8] = &d;
                let (r, _, e) = res3(catch_unwind(AssertUnwindSafe(|| s.read_exact_volatile_from(a, &mut src, n))));
                (r, e)
            }
            ("fvs.write_volatile_to", Obj::S(s)) => {
                let mut dst: Vec<u8> = Vec::new();
                let (r, k, e) = res3(catch_unwind(AssertUnwindSafe(|| s.write_volatile_to(a, &mut dst, n))));
                ret = k.map(|k| k as u64);
                if k.is_some() {
                    out = Some(dst);
                }
                (r, e)
            }
            ("fvs.write_all_volatile_to", Obj::S(s)) => {
                let mut dst: Vec<u8> = Vec::new();
                let (r, k, e) = res3(catch_unwind(AssertUnwindSafe(|| s.write_all_volatile_to(a, &mut dst, n))));
                if k.is_some() {
                    out = Some(dst);
                }
                (r, e)
            }
            ("fvs.borrow_as_buf", Obj::S(s)) => {
                let inited = a % 2 == 0;
                n = if inited { 1 } else { 0 };
                newobj = Some(Obj::B(unsafe { s.borrow_as_buf(inited) }));
                ("ok", None)
            }
            ("buf.new", Obj::S(s)) => {
                // the three constructors over the window of this slice; n = initialised size
                let (p, l) = (s.as_ptr(), s.len());
                n = n.min(l);
                let sl = unsafe { std::slice::from_raw_parts_mut(p, l) };
                let b = match rng.below(3) {
                    0 => {
                        n = 0;
                        unsafe { FileVolatileBuf::new(sl) }
                    }
                    1 => unsafe { FileVolatileBuf::new_with_data(sl, n) },
                    _ => unsafe { FileVolatileBuf::from_raw_ptr(p, n, l) },
                };
                newobj = Some(Obj::B(b));
                ("ok", None)
            }
            ("buf.set_size", Obj::B(b)) => {
                unsafe { b.set_size(n) };
                ("ok", None)
            }
            ("buf.fill", Obj::B(b)) => {
                // what an I/O runtime does: write into io_slice_mut(), then set_size(len + k)
                let d = ramp_bytes(v, n);
                let mut m = b.io_slice_mut();
                let k = n.min(m.len());
                m[..k].copy_from_slice(&d[..k]);
                let nl = b.len() + k;
                unsafe { b.set_size(nl) };
                ret = Some(k as u64);
                ("ok", None)
            }
            (f, Obj::S(s)) if f.starts_with("ft.") => {
                // exact transfers between a window of this slice and a file, through the DEFAULT trait methods over a
                // backend that moves 1..3 bytes per call: [a, a + n) of the slice <-> [x, x + n) of the file
                let a2 = a.min(olen);
                n = n.min(olen - a2).min(12);
                if script.is_some() {
                    n = n.max(7.min(olen - a2));
                }
                let cap = rng.range(1, 3) as usize;
                let sub = s.offset(a2).and_then(|t| unsafe { Ok(FileVolatileSlice::from_raw_ptr(t.as_ptr(), n)) }).unwrap();
                let reading = f.starts_with("ft.read");
                let x = match rng.below(4) {
                    0 => 0,
                    1 if reading => (SRC_SIZE as u64).saturating_sub(rng.below(10)),
                    _ => rng.below(if reading { SRC_SIZE as u64 } else { (SINK_SIZE - 20) as u64 }),
                };
                if !reading {
                    // fresh poison under the sink so that every byte written shows up in the file diff
                    let poison = vec![FPOISON; SINK_SIZE];
                    unsafe { libc::pwrite(fsink.f.as_raw_fd(), poison.as_ptr() as *const libc::c_void, SINK_SIZE, 0) };
                    fsink.shadow = poison;
                }
                let file = if reading { &fsrc } else { &fsink };
                let mut prim = Prim { fd: file.f.as_raw_fd(), cap };
                let cursor = f == "ft.read_exact" || f == "ft.write_all";
                if cursor {
                    file.set_pos(x);
                }
                let q = catch_unwind(AssertUnwindSafe(|| match f {
                    "ft.read_exact_at" => prim.read_exact_at_volatile(sub, x),
                    "ft.write_all_at" => prim.write_all_at_volatile(sub, x),
                    "ft.read_exact" => prim.read_exact_volatile(sub),
                    _ => prim.write_all_volatile(sub),
                }));
                let (r, _, e) = res3(q);
                ev.insert("x".into(), json!(x));
                ev.insert("cap".into(), json!(cap));
                if cursor {
                    ev.insert("fpos".into(), json!(file.pos()));
                }
                ft_a = Some(a2);
                if !reading {
                    ft_sink = true;
                }
                (r, e)
            }
            ("buf.peek", Obj::B(b)) => {
                out = Some(b.io_slice().to_vec());
                ("ok", None)
            }
            _ => unreachable!(),
        };
        ev.insert("e".into(), json!("Op"));
        ev.insert("seg".into(), json!(seg));
        ev.insert("i".into(), json!(i));
        ev.insert("o".into(), json!(oi + 1));
        ev.insert("op".into(), json!(op));
        ev.insert("a".into(), json!(ft_a.unwrap_or(a)));
        if ft_a.is_some() {
            let (d, _) = fsink.diff();
            let _ = ft_sink;
            ev.insert("fdiff".into(), d);
        }
        ev.insert("n".into(), json!(n));
        ev.insert("v".into(), json!(v));
        if width > 0 {
            ev.insert("w".into(), json!(width));
        }
        ev.insert("res".into(), json!(res));
        if let Some(k) = ret {
            ev.insert("ret".into(), json!(k));
        }
        if let Some(e) = err {
            ev.insert("err".into(), json!(e));
        }
        if let Some(b) = &out {
            ev.insert("out".into(), ramps(b));
            ev.insert("outlen".into(), json!(b.len()));
        }
        if let Some(o) = newobj {
            cx.objs.push(o);
            let k = cx.objs.len();
            ev.insert("new".into(), json!(k));
            ev.insert("newwin".into(), cx.win(k - 1));
        }
        ev.insert("win".into(), cx.win(oi));
        ev.insert("content".into(), cx.content());
        ev.insert("canary".into(), json!(cx.canary_ok()));
        tr.emit(&Value::Object(ev));
    }
    tr.emit(&json!({"e":"End","seg":seg}));
    steps
}
