SPECIFICATION Spec
CONSTANTS
  Prog <- P_3S3R
  Procs = {1,2,3,4,5,6}
  Fixed = FALSE
  EnableFirst = TRUE
INVARIANTS LinStrict LinWeak QuiescentAgrees AtMostOnceI NoInventionI NoLostWakeupQ ParkedRegistered WaitersSane
