SPECIFICATION Spec
CONSTANTS
  Ops <- Ops_2L1F
  R0Set <- R0_1
  Eager = FALSE
  SkipZeroRetry = TRUE
  NoReprobe = FALSE
  BlindStore = FALSE
INVARIANTS Refines Final RetInMap NoZeroVisible OneNumber LockSane 
VIEW View
