----------------------------- MODULE ExportWire -----------------------------
(* Exports the ABI table and the per-opcode request/reply shapes as JSON (IOEnv.OUT) so that the
   harness's request encoder / reply decoder is driven by the specification and not by the
   crate's own structures. Evaluated once per check run. *)
EXTENDS FuseWire, Json, IOUtils
SetToSeq(S) == CHOOSE q \in [1..Cardinality(S) -> S] : \A i, j \in 1..Cardinality(S) : i # j => q[i] # q[j]
OpRow(o) == [code |-> OpTab[o].code, body |-> OpTab[o].body, tail |-> OpTab[o].tail, m |-> OpTab[o].m,
             ff |-> IF o \in DOMAIN FlagBits THEN FlagBits[o].ff ELSE "",
             bits |-> IF o \in DOMAIN FlagBits THEN SetToSeq(FlagBits[o].bits) ELSE <<>>,
             num |-> IF o \in DOMAIN NumFields THEN SetToSeq(NumFields[o]) ELSE <<>>,
             noreply |-> o \in NoReplyOps,
             kinds |-> SetToSeq(ResultKinds[o])]
Doc == [layout |-> Layout, size |-> StructSize, const |-> KConst, nested |-> Nested,
        ops |-> [o \in Ops |-> OpRow(o)], replyshape |-> ReplyShape]
ASSUME JsonSerialize(IOEnv.OUT, Doc)
VARIABLE x
Init == x = 0
Next == UNCHANGED x
=============================================================================
