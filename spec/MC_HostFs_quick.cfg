SPECIFICATION Spec
CONSTANTS
  Nm = {"a", "b"}
  MaxOps = 3
  MaxIno = 6
INVARIANTS TreeOK FailClean WalkOK SizeOK
CHECK_DEADLOCK FALSE
