"""X07 (engine mountfds) - beyond the listed properties (DESIGN.md section 9, item 3): the life cycle of
`MountFds` / `MountFd` (src/passthrough/mount_fd.rs) under concurrency.

spec/MountFds.tla            A level: reference-counted registry of one open descriptor per mount; S1-S3
spec/MountFdsImpl.tla        I level (PlusCal): one label per stretch between two lock acquisitions / atomic steps of
                             MountFds::get and MountFd::drop, explicit Arc strong counts, MountFd objects as ids,
                             failure injection at open / validate / reopen; invariants S1 Refines LiveRegistered S2 S3
spec/MC_MountFds*.cfg        B_*: the bare object, C_*: inside PassthroughFs (inode map lock), *_x: export of ALL
                             interleavings, mut_*: mutation self-tests (each must violate an invariant)
spec/Trace_MountFds.tla      monitor-mode judge of recorded histories (subset-construction linearisability + S1-S3)
harness/src/bin/mountfds.rs  real threads of a real PassthroughFs (inode_file_handles) over two tmpfs mounts, scheduler
                             at the yield points of hooks/mountfd-yield.diff, RLIMIT_NOFILE fault injection, stress

Exit 2 with "hooks not present" until hooks/mountfd-yield.diff is in the crate the harness depends on."""
import concurrent.futures as cf
import json
import math
import os
import random
import re
import time

from . import common as C

LEVEL = {"X07": "model_checking"}

PARK_LABELS = ["L_probe", "L_wlock", "F_wlock", "MF_probe", "MF_open", "MF_reopen", "MF_wlock", "MD_wlock"]
WINDOWS = ["get_hit", "get_miss", "forget_dropped_last", "get_failed"]
# LD_wlock (a lookup whose name was added concurrently drops the LAST reference of its MountFd) needs two live MountFd
# objects of one mount: reachable only when the one-descriptor invariant is already broken (mutant NoReprobe), so the
# vacuity gate counts the mutation runs for it and the replay does not require the window "dup_handle_dropped_last".
I_ACTIONS = ["L_probe", "MF_probe", "MF_open", "MF_reopen", "MF_wlock", "L_wlock", "LD_wlock", "F_wlock", "FD_wlock"]
MC_QUICK = ["B_GD", "B_GG", "B_2G1D", "B_3G", "B_FAIL", "C_LL", "C_2L1F", "C_FAIL"]
MC_THOROUGH = MC_QUICK + ["B_2M", "C_LF", "B_G2D", "B_GPG", "B_FAIL2", "C_L2F", "C_3L", "C_LFM", "C_LLFM", "C_FAIL2", "C_2M"]
# mutation self-tests: cfg -> invariants of which at least one must be violated
MUTANTS = {"mut_drop": ("drop removes the key unconditionally", {"LiveRegistered", "Refines", "S2"}),
           "mut_reprobe": ("get inserts without probing again under the write lock", {"Refines", "LiveRegistered", "S2"}),
           "mut_leak": ("an early return of get forgets to close the probe fd", {"S2", "S3"})}
MUTANTS["mut_reprobe_c"] = MUTANTS["mut_reprobe"]
MUTANTS_THOROUGH = {"mut_drop_c": MUTANTS["mut_drop"], "mut_leak_c": MUTANTS["mut_leak"]}
X_QUICK = ["C_LF_x", "C_L2F_x", "C_LFM_x", "C_LL_x", "C_FAIL2_x", "C_3L_x"]
X_THOROUGH = X_QUICK + ["C_2L1F_x", "C_FAIL_x", "C_LLFM_x", "C_2M_x"]
CAP = {"quick": 1200, "thorough": 9000}     # schedules replayed per export config (all of them below the cap)
SHARD = 1500
PAR = 6


def crate_dir():
    with open(os.path.join(C.HARNESS, "Cargo.toml")) as f:
        m = re.search(r'fuse-backend-rs\s*=\s*\{[^}]*path\s*=\s*"([^"]+)"', f.read())
    if not m:
        raise C.ToolError("cannot find the fuse-backend-rs path dependency in %s/Cargo.toml" % C.HARNESS)
    p = m.group(1)
    return p if os.path.isabs(p) else os.path.normpath(os.path.join(C.HARNESS, p))


def require_hooks():
    src = os.path.join(crate_dir(), "src", "passthrough", "mount_fd.rs")
    try:
        txt = open(src).read()
    except OSError:
        raise C.ToolError("cannot read %s" % src)
    if 'verif_yield!("MF_probe")' not in txt or "verif_len" not in txt:
        raise C.ToolError("hooks not present: %s has no MF_*/MD_* yield points (apply hooks/mountfd-yield.diff to the crate)" % src)


def tlc_x(ctx, cfg, workers=2):
    """export config: returns (ops, [schedules], info)"""
    meta = ctx.path("tlc_x_%s" % cfg)
    args = ["-workers", str(workers), "-metadir", meta, "-noGenerateSpecTE", "-config", "MC_MountFds_%s.cfg" % cfg, "MC_MountFds.tla"]
    t = time.time()
    r = C._java(args, C.SPEC, None, 1500, xmx="6g", xss="512m")
    out = r.stdout
    if "is violated" in out:
        return None, None, out
    ops, scheds, seen = None, [], set()
    for line in out.splitlines():
        if line.startswith('"OPS '):
            ops = json.loads(json.loads(line)[4:])
        elif line.startswith('"SCHED '):
            body = json.loads(line)[6:]
            if body not in seen:
                seen.add(body)
                scheds.append(json.loads(body))
    if ops is None or not scheds:
        C.log(out[-3000:])
        raise C.ToolError("TLC export %s produced no schedules" % cfg)
    m = C._RE_STATES.findall(out)
    return ops, scheds, {"cfg": cfg, "schedules": len(scheds), "tree_states": int(m[-1][1]) if m else 0, "wall_s": round(time.time() - t, 1)}


def write_sched(ctx, tag, header, scheds):
    sf = ctx.path("sched_%s.ndjson" % tag)
    with open(sf, "w") as f:
        f.write(json.dumps(header) + "\n")
        for s in scheds:
            f.write(json.dumps(s, separators=(",", ":")) + "\n")
    return sf


def replay_shard(ctx, bindir, tag, sf, sh, nsh):
    wd = ctx.path("fs")
    os.makedirs(wd, exist_ok=True)
    out = ctx.path("trace_%s_%d.ndjson" % (tag, sh))
    r = C.run_bin(bindir, "mountfds", ["sched", sf, wd, out, sh, nsh], env={"VERIF_SEED": ctx.seed}, timeout=1500, ok_codes=(0, 3))
    lines = r.stdout.strip().splitlines()
    if not lines:
        C.log(r.stderr[-2000:])
        raise C.ToolError("mountfds sched printed no summary (%s)" % tag)
    return tag, json.loads(lines[-1]), out


def stress(ctx, bindir, i, iters):
    wd = ctx.path("fs")
    os.makedirs(wd, exist_ok=True)
    out = ctx.path("stress_%d.ndjson" % i)
    seed = ctx.seed * 1000 + i
    r = C.run_bin(bindir, "mountfds", ["stress", wd, out, iters], env={"VERIF_SEED": seed, "MOUNTFDS_PERTURB": 1}, timeout=1500, ok_codes=(0, 3))
    return json.loads(r.stdout.strip().splitlines()[-1]), out, seed


def judge(ctx, path):
    """monitor-mode run of Trace_MountFds: ([(signature, event index, detail)], events, states)"""
    r = C.tlc_trace(ctx, "Trace_MountFds", path, timeout=1500, xmx="4g")
    if not r["accepted"]:
        C.log(r["output"][-3000:])
        raise C.ToolError("Trace_MountFds did not consume %s" % path)
    return C.parse_viols(r["output"]), r["n"], r.get("distinct", 0)


def segment_of(rows, idx):
    """rows of the segment that contains event index idx (1-based)"""
    a = idx - 1
    while a > 0 and rows[a].get("e") != "Reset":
        a -= 1
    b = a + 1
    while b < len(rows) and rows[b].get("e") != "Reset":
        b += 1
    return rows[a:b]


def run_x07(ctx):
    require_hooks()
    if getattr(ctx, "replay", None):
        return run_replay(ctx)
    bindir = C.build_harness(bins=["mountfds"])
    rnd = random.Random(ctx.seed)
    t0 = time.time()
    ex = cf.ThreadPoolExecutor(max_workers=PAR)
    xs = X_QUICK if ctx.quick else X_THOROUGH
    fut_x = {x: ex.submit(tlc_x, ctx, x, 1 if ctx.quick else 2) for x in xs}

    # --- 1. model checking: A sanity, I => A for every shape, mutation self-tests
    C.tlc_mc(ctx, "MC_MountFdsA", cfg="MC_MountFdsA.cfg", workers=1, timeout=300, xmx="2g")
    shapes = MC_QUICK if ctx.quick else MC_THOROUGH

    def mc(shape):
        return shape, C.tlc_mc(ctx, "MC_MountFds", cfg="MC_MountFds_%s.cfg" % shape, workers=1, timeout=600, xmx="3g", must_cover=False)
    covered = {}
    mc_rows = []
    for shape, r in ex.map(mc, shapes):
        mc_rows.append({"shape": shape, "distinct": r["distinct"], "generated": r["generated"], "violated": r["violated"]})
        for k, v in r.get("actions", {}).items():
            covered[k.split("!")[-1]] = covered.get(k.split("!")[-1], 0) + v
        for inv in r["violated"]:
            tail = r["output"][r["output"].find("Error: Invariant"):][:6000]
            ctx.violation("X07|model|%s|%s" % (shape, inv), {"tlc_counterexample": tail}, replay_src={"mode": "model", "shape": shape, "invariant": inv, "trace": tail})
    muts = dict(MUTANTS)
    if not ctx.quick:
        muts.update(MUTANTS_THOROUGH)

    def mut(cfg):
        return cfg, C.tlc_mc(ctx, "MC_MountFds", cfg="MC_MountFds_%s.cfg" % cfg, workers=1, timeout=600, xmx="3g", expect_violation=True, must_cover=False, cont=True)
    mut_rows = []
    for cfg, r in ex.map(mut, list(muts)):
        what, want = muts[cfg]
        if not (set(r["violated"]) & want):
            raise C.ToolError("mutation self-test failed: %s (%s) violates %s, expected one of %s" % (cfg, what, r["violated"], sorted(want)))
        mut_rows.append({"cfg": cfg, "mutant": what, "violated": r["violated"], "distinct_states": r["distinct"]})
        if r.get("actions", {}).get("MountFdsImpl!LD_wlock", 0):
            covered["LD_wlock"] = covered.get("LD_wlock", 0) + r["actions"]["MountFdsImpl!LD_wlock"]
    never = [a for a in I_ACTIONS if covered.get(a, 0) == 0]
    if never:
        raise C.ToolError("vacuity gate: actions of MountFdsImpl never taken in any configuration: %s" % never)
    C.log("model checking done: %d shapes, %d mutants found (%.0fs)" % (len(shapes), len(mut_rows), time.time() - t0))

    # --- 2. export all interleavings, replay them on the real code
    jobs, exports, index = [], [], {}
    for x in xs:
        ops, scheds, info = fut_x[x].result()
        if ops is None:
            tail = info[info.find("Error: Invariant"):][:6000]
            ctx.violation("X07|model|%s|export-invariant" % x, {"tlc_counterexample": tail}, replay_src={"mode": "model", "cfg": x, "trace": tail})
            continue
        total = len(scheds)
        if total > CAP[ctx.tier]:
            scheds = rnd.sample(scheds, CAP[ctx.tier])
        info["replayed"] = len(scheds)
        info["all_interleavings"] = len(scheds) == total
        exports.append(info)
        header = {"cfg": x, "threads": ops}
        index[x] = (header, scheds)
        sf = write_sched(ctx, x, header, scheds)
        nsh = max(1, math.ceil(len(scheds) / SHARD))
        for sh in range(nsh):
            jobs.append(ex.submit(replay_shard, ctx, bindir, x, sf, sh, nsh))
    n_stress, it_stress = (1, 400) if ctx.quick else (4, 2500)
    fut_s = [ex.submit(stress, ctx, bindir, i, it_stress) for i in range(n_stress)]
    C.log("exports done: %d schedules to replay (%.0fs)" % (sum(e["replayed"] for e in exports), time.time() - t0))

    per_cfg, labels, windows, files = {}, {}, {}, []
    for f in jobs:
        tag, summ, out = f.result()
        d = per_cfg.setdefault(tag, {"schedules": 0, "drift_schedules": 0, "label_mismatch": 0, "blocked": 0, "hangs": 0})
        d["schedules"] += summ.get("schedules", 0)
        d["drift_schedules"] += summ.get("drift_schedules", 0)
        d["label_mismatch"] += summ.get("label_mismatch", 0)
        d["blocked"] += summ.get("watchdog", 0)
        d["hangs"] += summ.get("hangs", 0)
        for k, v in summ.get("labels", {}).items():
            labels[k] = labels.get(k, 0) + v
        for k, v in summ.get("windows", {}).items():
            windows[k] = windows.get(k, 0) + v
        files.append((tag, out, None))
    stress_stats = {"runs": 0, "iterations": 0, "ops": 0, "hangs": 0}
    for f in fut_s:
        summ, out, seed = f.result()
        stress_stats["runs"] += 1
        stress_stats["iterations"] += summ["iterations"]
        stress_stats["ops"] += summ["ops"]
        stress_stats["hangs"] += summ.get("hangs", 0)
        files.append(("stress", out, seed))
    total_sched = sum(d["schedules"] for d in per_cfg.values())
    drift_total = sum(d["drift_schedules"] for d in per_cfg.values())
    C.log("replay on the real code done: %d schedules (%d with drift), %d stress iterations (%.0fs)" % (total_sched, drift_total, stress_stats["iterations"], time.time() - t0))

    # --- 3. TLC judges every recorded history
    clean = None
    futs = [(tag, out, seed, ex.submit(judge, ctx, out)) for tag, out, seed in files]
    for tag, out, seed, f in futs:
        viols, n, states = f.result()
        ctx.events += n
        ctx.states += states
        ctx.transitions += states
        rows = None
        if viols:
            rows = C.read_ndjson(out)
        else:
            if clean is None and tag != "stress":
                clean = out
        with open(out) as fh:
            ctx.traces += sum(1 for line in fh if '"e":"Reset"' in line)
        for sig, idx, detail in viols:
            seg = segment_of(rows, idx)
            reset = seg[0] if seg else {}
            if tag == "stress":
                scen = {"mode": "stress", "seed": seed, "iterations": it_stress, "segment": reset.get("seg"), "history": seg}
            else:
                header, scheds = index[tag]
                sid = reset.get("sid", 0)
                scen = {"mode": "sched", "header": header, "schedule": scheds[sid] if sid < len(scheds) else None, "history": seg}
            ctx.violation(sig, {"event": idx, "detail": detail, "h0": reset.get("h0"), "sid": reset.get("sid")}, replay_src=scen)
    C.log("judging done (%.0fs)" % (time.time() - t0))
    if drift_total:
        C.log("MODEL-DRIFT: %d of %d schedules could not be followed label by label" % (drift_total, total_sched))
        for tag, d in per_cfg.items():
            if d["drift_schedules"] and len(ctx.drift) < 12:
                ctx.drift.append(dict(d, config=tag))

    # --- coverage gate of the replay
    missing = [x for x in PARK_LABELS if labels.get(x, 0) == 0]
    miss_w = [w for w in WINDOWS if windows.get(w, 0) == 0]
    if missing or miss_w:
        msg = "coverage gate: yield points never reached in the replay: %s; windows never hit: %s" % (missing, miss_w)
        if not ctx.violations and not ctx.known_hit:
            raise C.ToolError(msg)
        C.log("note: " + msg)

    demo = binding_demo(ctx, clean) if clean else ["skipped: no fully accepted trace to corrupt (violations reported instead)"]
    ctx.extra.update({
        "distinct_nontrivial": total_sched,
        "rule": "one schedule = one maximal interleaving (sequence of <thread, label> steps) of the PlusCal model MountFdsImpl for one "
                "initial set of held names; every interleaving TLC enumerates for a configuration is replayed (a seeded sample above the cap)",
        "model_checking": mc_rows,
        "mutation_selftests": mut_rows,
        "action_coverage": {a: covered.get(a, 0) for a in I_ACTIONS},
        "exports": exports,
        "replay": per_cfg,
        "schedules_replayed_on_real_code": total_sched,
        "model_drift_schedules": drift_total,
        "yield_points_reached": labels,
        "windows_hit": windows,
        "stress": stress_stats,
        "binding_demo": demo,
    })
    if clean:
        rows = C.read_ndjson(clean)
        ctx.sample({"history": segment_of(rows, 2)[:40]})
    ctx.assumptions += [
        "interleavings are at the granularity of the yield points of hooks/mountfd-yield.diff (every section under the MountFds RwLock is one step; "
        "Arc::drop's strong decrement and the call of MountFd::drop are separated by the MD_wlock yield point)",
        "the export root is on the host file system, m and n are tmpfs mounts in a private mount namespace; the root inode pins its own mount (baseline map entry)",
        "failures of MountFds::get are injected as EMFILE (RLIMIT_NOFILE = 0 while the step runs); a failing validate_mount_id is model-checked only",
        "MountFd::drop outside the inode map lock (an operation still holding the Arc<InodeData> while forget removes it) occurs in the stress runs only",
    ]


def binding_demo(ctx, path):
    rows = C.read_ndjson(path)
    end = 0
    nres = 0
    for i, r in enumerate(rows):
        if r.get("e") == "Reset":
            nres += 1
            if nres == 6:
                end = i
                break
    base = rows[:end] if end else rows
    demos = []

    def run(name, mutate, want):
        bad = mutate([json.loads(json.dumps(r)) for r in base])
        p = ctx.path("corrupt_%s.ndjson" % re.sub(r"[^A-Za-z0-9]+", "_", name))
        C.write_ndjson(p, bad)
        viols, _, _ = judge(ctx, p)
        sigs = sorted(set(v[0].split("|", 2)[2] for v in viols))
        if not any(want in s for s in sigs):
            raise C.ToolError("binding demo failed: corruption '%s' was not flagged as %s (got %s)" % (name, want, sigs))
        demos.append({"corruption": name, "flagged": sigs})

    def m_map(bad):
        for r in bad:
            if r["e"] == "Probe" and r["at"] == "end":
                r["map"] += 1
                r["live"] += 1
                return bad
        raise C.ToolError("binding demo: no Probe")

    def m_fds(bad):
        for r in bad:
            if r["e"] == "Probe" and r["at"] == "drained":
                r["mfds"] += 1
                r["nfd"] += 1
                return bad
        raise C.ToolError("binding demo: no Probe")

    def m_ret(bad):
        for i, r in enumerate(bad):
            if r["e"] == "Ret" and r["t"] != 0:
                return bad[:i] + bad[i + 1:]
        raise C.ToolError("binding demo: no Ret")

    def m_count(bad):
        for r in bad:
            if r["e"] == "Probe" and r["at"] == "end" and r["names"]:
                r["names"][0]["count"] += 1
                r["names"][0]["present"] = True
                return bad
        raise C.ToolError("binding demo: no Probe")

    def m_unusable(bad):
        for r in bad:
            if r["e"] == "Probe":
                for o in r["names"]:
                    if o["count"] > 0:
                        o["getattr"] = "err:9"
                        return bad
        raise C.ToolError("binding demo: no held name in a Probe")
    run("Probe(end) map entries + 1", m_map, "map-entries")
    run("Probe(drained) descriptors + 1", m_fds, "S3|open-descriptors")
    run("drop one Ret event", m_ret, "hang")
    run("Probe(end) inode count + 1", m_count, "lin|inode-table-not-explained")
    run("held name reported unusable", m_unusable, "S1|held-reference-unusable")
    return demos


def run_replay(ctx):
    with open(ctx.replay) as f:
        rp = json.load(f)
    scen = rp.get("scenario") or rp
    bindir = C.build_harness(bins=["mountfds"])
    wd = ctx.path("fs")
    os.makedirs(wd, exist_ok=True)
    out = ctx.path("replay_trace.ndjson")
    if scen.get("mode") == "sched" and scen.get("schedule"):
        sf = write_sched(ctx, "replay", scen["header"], [scen["schedule"]] * 20)
        C.run_bin(bindir, "mountfds", ["sched", sf, wd, out], timeout=600, ok_codes=(0, 3))
    elif scen.get("mode") == "stress":
        C.run_bin(bindir, "mountfds", ["stress", wd, out, scen["iterations"]], env={"VERIF_SEED": scen["seed"], "MOUNTFDS_PERTURB": 1}, timeout=1500, ok_codes=(0, 3))
    elif scen.get("history"):
        C.write_ndjson(out, scen["history"])
    else:
        raise C.ToolError("replay file has neither a schedule nor a history")
    viols, n, _ = judge(ctx, out)
    ctx.events += n
    rows = C.read_ndjson(out)
    for sig, idx, detail in viols:
        ctx.violation(sig, {"event": idx, "detail": detail}, replay_src=dict(scen, history=segment_of(rows, idx)))
    ctx.extra["replayed"] = ctx.replay


PROPS = {"X07": run_x07}
