SPECIFICATION Spec
CONSTANTS
  Ops <- Ops_1LBF
  R0Set <- R0_123
  Eager = FALSE
  SkipZeroRetry = FALSE
  NoReprobe = FALSE
  BlindStore = FALSE
INVARIANTS Refines Final RetInMap NoZeroVisible OneNumber LockSane 
VIEW View
