SPECIFICATION Spec
CONSTANTS
  PlainNames <- MC_Names2
  HostileNames <- MC_NoHostile
  MaxOps = 2
  MaxIno = 10
  Cfg <- MC_Cfg_seal_noopen_wb
  AsFound <- MC_AF_none
  Mode = "c18"
  InitS <- MC_S_plain
  ScenCfg <- MC_Scen_seal_noopen_wb
  ScenTree <- MC_Tree_plain
VIEW View
INVARIANTS TreeOK HandlesOK SwitchesOK Sealed SealRulesOK Report
CHECK_DEADLOCK FALSE
