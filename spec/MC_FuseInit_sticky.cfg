SPECIFICATION Spec
CONSTANT StickySw = TRUE
CONSTANT ExtMarker = TRUE
INVARIANT InvReply
INVARIANT InvSwitches
INVARIANT InvSecond
INVARIANT InvSecondReply
INVARIANT InvSecondSwitches
CHECK_DEADLOCK FALSE
